"""The random structure family of C01 / C13 / C17 (also used as pipeline workload for C09/C10/C16/C19/C20):
gases, rattled / defective / substituted crystals, two crystals in one cell, crystallites, molecules in a
box, slabs; every pbc mask; orthogonal / skewed / degenerate cells; wrapped or unwrapped positions."""
import numpy as np
from ase import Atoms
from ase.build import bulk, molecule, surface

from . import cells

PALETTE = [1, 6, 8, 13, 14, 22, 26, 29, 47, 55, 79, 82]
FAMILIES = ["gas", "crystal", "defective", "two_crystals", "crystallite", "molecules", "slab", "vacancy_shell", "primitive", "monolayer", "shared_species_stack",
            "nanotube", "ribbon", "bilayer", "adsorbed_molecule", "amorphous", "minority_compound", "minority_defective"]

_CRYSTALS = [
    ("Cu", "fcc", 3.61), ("Al", "fcc", 4.05), ("Fe", "bcc", 2.87), ("W", "bcc", 3.16), ("Si", "diamond", 5.43),
    ("C", "diamond", 3.57), ("NaCl", "rocksalt", 5.64), ("MgO", "rocksalt", 4.21), ("ZnS", "zincblende", 5.41),
    ("GaAs", "zincblende", 5.65), ("CsCl", "cesiumchloride", 4.12), ("Au", "fcc", 4.08), ("Mg", "hcp", 3.21),
    ("Ti", "hcp", 2.95), ("Po", "sc", 3.35),
]
_MOLECULES = ["H2O", "CO2", "CH4", "NH3", "C6H6", "C2H6", "CH3OH", "N2", "O2", "C2H4"]


def _bulk(rng, cubic=None):
    name, struct, a = _CRYSTALS[int(rng.integers(len(_CRYSTALS)))]
    kw = {}
    if cubic is None:
        cubic = rng.random() < 0.6
    if struct in ("fcc", "bcc", "diamond", "rocksalt", "zincblende", "cesiumchloride", "sc") and cubic:
        kw["cubic"] = True
    if struct == "hcp" and rng.random() < 0.5:
        kw["orthorhombic"] = True
    return bulk(name, struct, a=a, **kw), name


def _supercell(rng, unit, max_atoms):
    n_unit = len(unit)
    for _ in range(20):
        reps = rng.integers(1, 6, size=3)
        if n_unit * reps.prod() <= max_atoms:
            return unit.repeat(tuple(int(r) for r in reps))
    return unit.repeat((2, 2, 2)) if n_unit * 8 <= max_atoms else unit


def gas(rng, max_atoms):
    n = int(rng.integers(1, min(max_atoms, 60) + 1))
    cell, kind = cells.random_cell(rng, lo=3.0, hi=14.0, max_aspect=8)
    pos = rng.random((n, 3)) @ cell
    z = rng.choice(PALETTE, size=n)
    return Atoms(numbers=z, positions=pos, cell=cell, pbc=True)


def crystal(rng, max_atoms, rattle=True):
    unit, _ = _bulk(rng)
    a = _supercell(rng, unit, max_atoms)
    if rattle and rng.random() < 0.7:
        a.rattle(stdev=float(rng.choice([0.01, 0.03, 0.08])), seed=int(rng.integers(1 << 30)))
    a.set_pbc(True)
    return a


def defective(rng, max_atoms):
    a = crystal(rng, max_atoms)
    n = len(a)
    if n > 4:
        nv = int(rng.integers(0, max(1, n // 8) + 1))
        if nv:
            keep = np.ones(n, bool)
            keep[rng.choice(n, nv, replace=False)] = False
            a = a[keep]
    n = len(a)
    ns = int(rng.integers(0, max(1, n // 8) + 1))
    if ns:
        z = a.get_atomic_numbers()
        z[rng.choice(n, ns, replace=False)] = rng.choice(PALETTE, size=ns)
        a.set_atomic_numbers(z)
    return a


def two_crystals(rng, max_atoms):
    u1, _ = _bulk(rng, cubic=True)
    u2, _ = _bulk(rng, cubic=True)
    k = int(rng.integers(2, 4))
    l1, l2 = int(rng.integers(2, 4)), int(rng.integers(2, 4))
    a = u1.repeat((k, k, l1))
    b = u2.repeat((k, k, l2))
    # strain b laterally to a's cell (whatever the mismatch: this is a hostile, not a physical, family)
    cb = b.get_cell().array
    ca = a.get_cell().array
    newc = np.array([ca[0], ca[1], cb[2]])
    b.set_cell(newc, scale_atoms=True)
    gap = float(rng.uniform(1.5, 2.8))
    b.translate(ca[2] + np.array([0, 0, gap]) - np.array([0, 0, 0]))
    cell = np.array([ca[0], ca[1], ca[2] + cb[2] + np.array([0, 0, 2 * gap + rng.uniform(0, 8)])])
    s = a + b
    s.set_cell(cell)
    s.set_pbc(True)
    if len(s) > max_atoms:
        s = s[:max_atoms]
    return s


def crystallite(rng, max_atoms):
    unit, _ = _bulk(rng, cubic=True)
    big = unit.repeat((5, 5, 5))
    c = big.get_positions().mean(axis=0)
    r = float(rng.uniform(3.5, 8.0))
    d = np.linalg.norm(big.get_positions() - c, axis=1)
    sel = big[d < r]
    if rng.random() < 0.4:   # cut by a plane as well
        nrm = rng.normal(size=3); nrm /= np.linalg.norm(nrm)
        keep = (sel.get_positions() - c) @ nrm < rng.uniform(0.5, r)
        if keep.sum() > 3:
            sel = sel[keep]
    if len(sel) > max_atoms:
        sel = sel[:max_atoms]
    if len(sel) == 0:
        sel = big[:1]
    sel.center(vacuum=float(rng.uniform(3, 7)))
    return sel


def vacancy_shell(rng, max_atoms):
    """A crystal(lite) in which one atom stays on its lattice site while all its nearest neighbours are removed
    (the situation in which SBC's cleaning stage drops atoms after the region was tracked)."""
    unit, _ = _bulk(rng, cubic=True)
    k = int(rng.integers(3, 6))
    big = unit.repeat((k, k, k))
    while len(big) > max_atoms and k > 2:
        k -= 1
        big = unit.repeat((k, k, k))
    pos = big.get_positions()
    i0 = int(rng.integers(len(big)))
    from ase.geometry import get_distances
    _, d = get_distances(pos[i0:i0 + 1], pos, cell=big.get_cell(), pbc=True)
    d = d[0]
    d[i0] = np.inf
    nn = d.min()
    keep = ~(d < nn * float(rng.choice([1.05, 1.2, 1.5])))
    keep[i0] = True
    out = big[keep]
    if rng.random() < 0.5:
        out.set_pbc(False)
        out.center(vacuum=float(rng.uniform(3, 6)))
    return out


def molecules(rng, max_atoms):
    box = rng.uniform(8, 18, size=3)
    out = Atoms(cell=np.diag(box), pbc=True)
    nm = int(rng.integers(1, 6))
    for _ in range(nm):
        m = molecule(_MOLECULES[int(rng.integers(len(_MOLECULES)))])
        m.rotate(float(rng.uniform(0, 360)), rng.normal(size=3))
        m.translate(rng.random(3) * box - m.get_positions().mean(axis=0))
        if len(out) + len(m) > max_atoms:
            break
        out += m
    if len(out) == 0:
        out += molecule("H2O")
    return out


def slab(rng, max_atoms):
    unit, _ = _bulk(rng, cubic=True)
    idx = [(1, 0, 0), (1, 1, 0), (1, 1, 1)][int(rng.integers(3))]
    layers = int(rng.integers(2, 6))
    s = surface(unit, idx, layers, vacuum=float(rng.uniform(3, 8)))
    k = int(rng.integers(1, 4))
    s = s.repeat((k, k, 1))
    if len(s) > max_atoms:
        s = s[:max_atoms]
    if rng.random() < 0.5:
        s.rattle(stdev=0.03, seed=int(rng.integers(1 << 30)))
    return s



def primitive(rng, max_atoms):
    """Primitive cells with 1-4 atoms: an atom bonded to its own periodic images (bulk, monoatomic chain / layer)."""
    k = int(rng.integers(4))
    if k == 0:
        unit, _ = _bulk(rng, cubic=False)
        a = unit
    elif k == 1:
        z = int(rng.choice([6, 13, 29, 79]))
        d = float(rng.uniform(1.2, 3.0))
        a = Atoms(numbers=[z], positions=[[0, 0, 0]], cell=[d, float(rng.uniform(6, 12)), float(rng.uniform(6, 12))], pbc=True)
    elif k == 2:
        z = int(rng.choice([6, 14, 29, 47]))
        d = float(rng.uniform(1.4, 3.0))
        a = Atoms(numbers=[z], positions=[[0, 0, 0]], cell=[d, d * float(rng.uniform(0.9, 1.1)), float(rng.uniform(7, 14))], pbc=True)
    else:
        unit, _ = _bulk(rng, cubic=False)
        reps = [int(x) for x in rng.integers(1, 3, size=3)]
        a = unit.repeat(reps)
    return a


def monolayer(rng, max_atoms):
    from ase.build import graphene, mx2
    k = int(rng.integers(4))
    vac = float(rng.uniform(5, 9))
    if k == 0:
        a = graphene(vacuum=vac)
    elif k == 1:
        a = graphene(formula="BN", a=2.504, vacuum=vac)
    elif k == 2:
        a = mx2("MoS2", kind="2H", a=3.18, thickness=3.19, vacuum=vac)
    else:
        a = mx2("TiS2", kind="1T", a=3.41, thickness=2.85, vacuum=vac)
    n = int(rng.integers(2, 6))
    a = a.repeat((n, n, 1))
    a.set_pbc(True)
    if len(a) > max_atoms:
        a = a[:max_atoms]
    return a



_SHARED = [("GaAs", "AlAs", "zincblende", 5.65, 5.66), ("ZnS", "ZnSe", "zincblende", 5.41, 5.67), ("GaAs", "GaP", "zincblende", 5.65, 5.45),
           ("TiN", "TiC", "rocksalt", 4.24, 4.33), ("NaCl", "NaBr", "rocksalt", 5.64, 5.97), ("MgO", "NiO", "rocksalt", 4.21, 4.17),
           ("CaF2", "SrF2", "fluorite", 5.46, 5.80), ("KCl", "KBr", "rocksalt", 6.29, 6.60)]


def shared_species_stack(rng, max_atoms):
    """Two lattice-matched compounds that share one element, stacked along z (regions found from either side share
    atoms of the common sublattice: the situation in which SBC has to merge / localize clusters of different species)."""
    A, B, proto, aa, ab = _SHARED[int(rng.integers(len(_SHARED)))]
    if rng.random() < 0.5:
        A, B, aa, ab = B, A, ab, aa
    k = 2
    la, lb = int(rng.integers(1, 3)), int(rng.integers(1, 3))
    a = bulk(A, proto, a=aa, cubic=True).repeat((k, k, la))
    b = bulk(B, proto, a=ab, cubic=True).repeat((k, k, lb))
    ca, cb = a.get_cell().array, b.get_cell().array
    b.set_cell(np.array([ca[0], ca[1], cb[2]]), scale_atoms=True)
    b.translate(ca[2])
    s = a + b
    gap = float(rng.choice([0.0, 0.0, 6.0]))
    s.set_cell(np.array([ca[0], ca[1], ca[2] + cb[2] + np.array([0, 0, gap])]))
    s.set_pbc(True)
    if rng.random() < 0.5:
        s.rattle(stdev=0.03, seed=int(rng.integers(1 << 30)))
    if len(s) > max_atoms:
        s = s[:max_atoms]
    return s



_COMPOUNDS = [("NaCl", "rocksalt", 5.64), ("MgO", "rocksalt", 4.21), ("CsCl", "cesiumchloride", 4.12), ("ZnS", "zincblende", 5.41),
              ("LiF", "rocksalt", 4.03), ("KBr", "rocksalt", 6.60), ("PbS", "rocksalt", 5.94)]
_ELEMENTAL = [("Cu", "fcc", 3.61), ("Al", "fcc", 4.05), ("Fe", "bcc", 2.87), ("Ag", "fcc", 4.09), ("Au", "fcc", 4.08), ("W", "bcc", 3.16)]


def minority_defective(rng, max_atoms):
    """minority_compound with 15-35 % of the compound's atoms removed: some of the remaining ones sit on lattice sites
    of the region without a bonded neighbour (the clean-up stage has to drop them from an index list that is not
    ascending)."""
    return minority_compound(rng, max_atoms, vacancies=float(rng.uniform(0.15, 0.35)))


def minority_compound(rng, max_atoms, vacancies=0.0):
    """A thin compound slab whose species have very different radii (rocksalt / CsCl / zincblende, 2-3 layers) on a
    much larger elemental crystal, always in shuffled atom order: the compound region is a small cluster that owns
    scattered, high atom indices (its index list is not ascending) and several species."""
    A, pa, aa = _COMPOUNDS[int(rng.integers(len(_COMPOUNDS)))]
    B, pb, ab = _ELEMENTAL[int(rng.integers(len(_ELEMENTAL)))]
    k = int(rng.integers(2, 4))
    b = bulk(A, pa, a=aa, cubic=True).repeat((k, k, 1))
    if rng.random() < 0.5:                      # 3 atomic layers instead of 2
        extra = bulk(A, pa, a=aa, cubic=True).repeat((k, k, 1))
        zs = np.unique(np.round(extra.get_positions()[:, 2], 3))
        extra = extra[[i for i, p in enumerate(extra.get_positions()) if abs(p[2] - zs[0]) < 1e-3]]
        extra.translate([0, 0, b.get_cell()[2, 2]])
        b = b + extra
        b.set_cell(b.get_cell().array + np.array([[0, 0, 0], [0, 0, 0], [0, 0, aa / 2]]))
    cb = b.get_cell().array
    m = max(1, int(round(cb[0, 0] / ab)))
    budget = max_atoms - len(b)
    per_layer = len(bulk(B, pb, a=ab, cubic=True)) * m * m
    layers = int(max(2, min(6, budget // max(per_layer, 1))))
    a = bulk(B, pb, a=ab, cubic=True).repeat((m, m, layers))
    ca = a.get_cell().array
    a.set_cell(np.array([cb[0], cb[1], ca[2]]), scale_atoms=True)
    gap = float(rng.uniform(1.8, 2.6))
    b.translate(ca[2] + np.array([0, 0, gap]))
    if vacancies:
        keep = rng.random(len(b)) >= vacancies
        if keep.sum() >= 4:
            b = b[[int(i) for i in np.nonzero(keep)[0]]]
    if len(a) + len(b) > max_atoms:             # drop atoms of the elemental part, never of the compound
        a = a[:max(1, max_atoms - len(b))]
    s = a + b
    s.set_cell(np.array([cb[0], cb[1], ca[2] + cb[2] + np.array([0, 0, 2 * gap + rng.choice([0.0, 7.0])])]))
    s.set_pbc(True)
    if rng.random() < 0.5:
        s.rattle(stdev=0.02, seed=int(rng.integers(1 << 30)))
    return s[[int(i) for i in rng.permutation(len(s))]]


def nanotube(rng, max_atoms):
    from ase.build import nanotube as _nt
    n, m = int(rng.integers(3, 7)), int(rng.integers(0, 4))
    a = _nt(n, m, length=int(rng.integers(1, 4)), vacuum=float(rng.uniform(3, 6)))
    if rng.random() < 0.4:
        z = a.get_atomic_numbers(); z[::2] = 5; z[1::2] = 7; a.set_atomic_numbers(z)     # BN tube
    a.set_pbc(True)
    return a[:max_atoms] if len(a) > max_atoms else a


def ribbon(rng, max_atoms):
    from ase.build import graphene_nanoribbon
    a = graphene_nanoribbon(int(rng.integers(2, 5)), int(rng.integers(1, 4)), type=["armchair", "zigzag"][int(rng.integers(2))],
                            saturated=bool(rng.random() < 0.5), vacuum=float(rng.uniform(3, 6)))
    a.set_pbc(True)
    return a[:max_atoms] if len(a) > max_atoms else a


def bilayer(rng, max_atoms):
    from ase.build import graphene
    n = int(rng.integers(2, 5))
    g = graphene(vacuum=0.0).repeat((n, n, 1))
    b = graphene(formula="BN", a=2.46, vacuum=0.0).repeat((n, n, 1))
    d = float(rng.uniform(3.0, 3.6))
    b.translate([0, 0, d])
    s = g + b
    cell = g.get_cell().array.copy()
    cell[2] = [0, 0, d + float(rng.uniform(8, 14))]
    s.set_cell(cell)
    s.set_pbc(True)
    if rng.random() < 0.5:
        s.rattle(stdev=0.02, seed=int(rng.integers(1 << 30)))
    return s[:max_atoms] if len(s) > max_atoms else s


def adsorbed_molecule(rng, max_atoms):
    from ase.build import fcc111, fcc100, add_adsorbate
    sym = ["Cu", "Pt", "Al", "Au"][int(rng.integers(4))]
    n = int(rng.integers(2, 5))
    s = (fcc111 if rng.random() < 0.5 else fcc100)(sym, size=(n, n, int(rng.integers(2, 5))), vacuum=float(rng.uniform(5, 8)))
    m = molecule(["CO", "H2O", "NH3", "CH4", "O2"][int(rng.integers(5))])
    m.rotate(float(rng.uniform(0, 180)), rng.normal(size=3))
    add_adsorbate(s, m, height=float(rng.uniform(1.6, 2.4)), position=(float(rng.uniform(0, 3)), float(rng.uniform(0, 3))))
    s.set_pbc(True)
    return s[:max_atoms] if len(s) > max_atoms else s


def amorphous(rng, max_atoms):
    """Random packing with a minimum distance (a glass-like blob of one or two species in a periodic box)."""
    n = int(rng.integers(8, min(max_atoms, 70) + 1))
    L = float((n * rng.uniform(12, 22)) ** (1 / 3))
    pts = []
    tries = 0
    while len(pts) < n and tries < 20000:
        tries += 1
        p = rng.random(3) * L
        if all(np.linalg.norm((p - q + L / 2) % L - L / 2) > 1.9 for q in pts):
            pts.append(p)
    z = rng.choice([14, 8] if rng.random() < 0.5 else [29, 40], size=len(pts))
    return Atoms(numbers=z, positions=np.array(pts), cell=[L, L, L], pbc=True)


_BUILDERS = {"gas": gas, "crystal": crystal, "defective": defective, "two_crystals": two_crystals,
             "crystallite": crystallite, "molecules": molecules, "slab": slab, "vacancy_shell": vacancy_shell,
             "primitive": primitive, "monolayer": monolayer, "shared_species_stack": shared_species_stack,
             "nanotube": nanotube, "ribbon": ribbon, "bilayer": bilayer, "adsorbed_molecule": adsorbed_molecule, "amorphous": amorphous,
             "minority_compound": minority_compound, "minority_defective": minority_defective}


def random_structure(rng, max_atoms=300, family=None, allow_degenerate=True, allow_invalid=False,
                     pbc_any=True):
    """Returns (atoms, meta).  meta: family, pbc, cell_mode, positions_mode, expect_value_error."""
    family = family or FAMILIES[int(rng.integers(len(FAMILIES)))]
    a = _BUILDERS[family](rng, max_atoms)
    a = Atoms(numbers=a.get_atomic_numbers(), positions=a.get_positions(), cell=a.get_cell().array, pbc=a.get_pbc())
    meta = {"family": family, "cell_mode": "as_built", "positions_mode": "as_built", "expect_value_error": False}
    # pbc mask
    natural = tuple(bool(x) for x in a.get_pbc())
    if pbc_any and rng.random() < 0.6:
        pbc = cells.PBCS[int(rng.integers(8))]
        a.set_pbc(pbc)
    pbc = np.array(a.get_pbc(), bool)
    # rigid rotation of everything
    if rng.random() < 0.5:
        R = cells.random_rotation(rng)
        a.set_cell(a.get_cell().array @ R.T)
        a.set_positions(a.get_positions() @ R.T)
        meta["cell_mode"] = "rotated"
    # cyclic permutation of the Cartesian axes (a proper rotation by 120 degrees about (1,1,1)): slabs and layers whose
    # normal points along x or y instead of z - axis-dependent bookkeeping (bins, extents, guards) sees every role
    meta["axes"] = "xyz"
    if rng.random() < 0.3:
        k = int(rng.integers(1, 3))
        perm = [(i + k) % 3 for i in range(3)]
        a.set_cell(a.get_cell().array[:, perm])
        a.set_positions(a.get_positions()[:, perm])
        meta["axes"] = "".join("xyz"[i] for i in perm)
    # unimodular basis change (same lattice when fully periodic; a different but valid structure otherwise)
    if rng.random() < 0.2:
        M = cells.random_unimodular(rng, steps=2, maxmult=1)
        newcell = M @ a.get_cell().array
        vol = abs(np.linalg.det(newcell))
        if vol > 1e-6:
            a.set_cell(newcell)
            # pbc flags follow the rows only if the mask is uniform; otherwise keep the mask (valid input anyway)
            meta["cell_mode"] = "sheared"
    # degenerate cells
    r = rng.random()
    if allow_degenerate and r < 0.12 and not pbc.all():
        c = a.get_cell().array.copy()
        for i in range(3):
            if not pbc[i] and rng.random() < 0.7:
                c[i] = 0.0
        a.set_cell(c)
        meta["cell_mode"] = "degenerate_nonperiodic_zero"
    elif allow_invalid and r < 0.17 and pbc.any():
        c = a.get_cell().array.copy()
        i = int(rng.choice(np.nonzero(pbc)[0]))
        c[i] = 0.0
        a.set_cell(c)
        meta["cell_mode"] = "zero_vector_periodic"
        meta["expect_value_error"] = True
    # positions: wrapped / shifted by lattice vectors / outside along non-periodic axes
    r = rng.random()
    cell = a.get_cell().array
    if r < 0.3 and abs(np.linalg.det(cell)) > 1e-9:
        a.wrap()
        meta["positions_mode"] = "wrapped"
    elif r < 0.55:
        shifts = rng.integers(-5, 6, size=(len(a), 3)) * pbc[None, :]
        a.set_positions(a.get_positions() + shifts @ cell)
        meta["positions_mode"] = "lattice_shifted"
    elif r < 0.7 and not pbc.all():
        t = rng.normal(scale=6.0, size=3)
        a.set_positions(a.get_positions() + t)
        meta["positions_mode"] = "translated_outside"
    # atom order: builders list one crystal / molecule after the other; half of the structures are shuffled (a small
    # region then owns scattered, high indices: index lists that are not ascending, index-ordered helper arrays)
    meta["order"] = "as_built"
    if rng.random() < 0.5 and len(a) > 1:
        a = a[[int(i) for i in rng.permutation(len(a))]]
        meta["order"] = "permuted"
    meta["decorations"] = decorate(a, rng) if rng.random() < 0.25 else []
    meta["pbc"] = "".join("TF"[not b] for b in pbc)
    meta["natoms"] = len(a)
    return a, meta


def decorate(atoms, rng):
    """Attaches what real ASE objects often carry and what must not influence any analysis: a FixAtoms constraint on a
    random subset (e.g. the frozen bottom layers of a slab model), tags, momenta, initial charges / magnetic moments
    and info entries.  In place; returns the list of decorations."""
    from ase.constraints import FixAtoms
    n = len(atoms)
    done = []
    if n and rng.random() < 0.7:
        k = max(1, int(n * rng.uniform(0.1, 0.6)))
        atoms.set_constraint(FixAtoms(indices=[int(i) for i in rng.choice(n, size=min(k, n), replace=False)]))
        done.append("FixAtoms")
    if rng.random() < 0.5:
        atoms.set_tags([int(t) for t in rng.integers(0, 4, size=n)]); done.append("tags")
    if rng.random() < 0.3:
        atoms.set_momenta(rng.normal(size=(n, 3)), apply_constraint=False); done.append("momenta")
    if rng.random() < 0.3:
        atoms.set_initial_charges(rng.normal(size=n)); done.append("initial_charges")
    if rng.random() < 0.3:
        atoms.set_initial_magnetic_moments(rng.normal(size=n)); done.append("initial_magmoms")
    if rng.random() < 0.5:
        atoms.info["name"] = "decorated"; atoms.info["energy"] = -1.5; done.append("info")
    return done


def describe(atoms):
    """Complete, replayable description."""
    return {"numbers": atoms.get_atomic_numbers().tolist(),
            "positions_hex": [float(x).hex() for x in atoms.get_positions().ravel()],
            "cell_hex": [float(x).hex() for x in atoms.get_cell().array.ravel()],
            "pbc": [bool(x) for x in atoms.get_pbc()],
            "decorations": {"constraints": repr(atoms.constraints)[:300], "extra_arrays": sorted(k for k in atoms.arrays if k not in ("numbers", "positions")),
                            "info_keys": sorted(map(str, atoms.info))}}


def from_description(d):
    pos = np.array([float.fromhex(x) for x in d["positions_hex"]]).reshape(-1, 3)
    cell = np.array([float.fromhex(x) for x in d["cell_hex"]]).reshape(3, 3)
    return Atoms(numbers=d["numbers"], positions=pos, cell=cell, pbc=d["pbc"])
