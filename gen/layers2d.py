"""2D layers for C11 (and the 2D part of C08/C04): flat and buckled sheets generated in symmorphic space groups
whose operations keep the stacking axis (z -> +-z), plus graphene / h-BN / MX2; periodic in (a, b), the
non-periodic vector perpendicular to the plane."""
import numpy as np
import spglib
from ase import Atoms
from ase.spacegroup import crystal

from . import cells
from .crystals230 import SPECIES, min_distance

# symmorphic groups with P or C lattice and no operation mixing z with x, y (ASE setting 1)
LAYER_GROUPS = {
    1: "oblique", 2: "oblique",
    3: "rect", 6: "rect", 10: "rect", 5: "rect", 8: "rect", 12: "rect",
    16: "rect", 25: "rect", 47: "rect", 21: "rect", 35: "rect", 65: "rect",
    75: "square", 81: "square", 83: "square", 89: "square", 99: "square", 111: "square", 115: "square", 123: "square",
    143: "hex", 147: "hex", 149: "hex", 150: "hex", 156: "hex", 157: "hex", 162: "hex", 164: "hex",
    168: "hex", 174: "hex", 175: "hex", 177: "hex", 183: "hex", 187: "hex", 189: "hex", 191: "hex",
}


def _inplane(rng, kind):
    a = float(rng.uniform(3.0, 7.0))
    b = float(a * rng.uniform(1.12, 1.6))
    if kind == "oblique":
        return a, b, float(rng.uniform(62, 84) if rng.random() < 0.5 else rng.uniform(96, 115))
    if kind == "rect":
        return a, b, 90.0
    if kind == "square":
        return a, a, 90.0
    return a, a, 120.0


def generated_layer(rng, no=None):
    no = no or int(rng.choice(list(LAYER_GROUPS)))
    a, b, gamma = _inplane(rng, LAYER_GROUPS[no])
    L = 20.0
    n_orb = int(rng.integers(1, 4))
    basis = []
    flat = rng.random() < 0.35
    for _ in range(n_orb):
        x, y = rng.random(2)
        if rng.random() < 0.4:
            x, y = float(rng.choice([0, 0.5, 1 / 3, 2 / 3])), float(rng.choice([0, 0.5, 1 / 3, 2 / 3]))
        dz = 0.0 if flat else float(rng.uniform(-1.5, 1.5))
        basis.append((float(x), float(y), 0.5 + dz / L))
    symbols = [int(z) for z in rng.choice(SPECIES, size=n_orb, replace=rng.random() < 0.3)]
    stacked = False
    if rng.random() < 0.3:
        # elemental buckled layer with unequal occupation of symmetry-related axes: two orbits of ONE element on the
        # same special in-plane site at different heights, a third one on another special site (a, a, b patterns)
        sites = [(0.0, 0.0), (1 / 3, 2 / 3), (2 / 3, 1 / 3)] if LAYER_GROUPS[no] == "hex" else [(0.0, 0.0), (0.5, 0.5), (0.0, 0.5), (0.5, 0.0)]
        i, j = (int(k) for k in rng.choice(len(sites), size=2, replace=False))
        h = sorted(float(v) for v in rng.uniform(-1.5, 1.5, size=3))
        if h[1] - h[0] < 0.9:
            h[1] = h[0] + 0.9 + 0.4 * float(rng.random())
        basis = [(sites[i][0], sites[i][1], 0.5 + h[0] / L), (sites[i][0], sites[i][1], 0.5 + min(h[1], 1.5) / L),
                 (sites[j][0], sites[j][1], 0.5 + float(rng.uniform(-1.5, 1.5)) / L)]
        z0 = int(rng.choice(SPECIES))
        symbols = [z0, z0, z0] if rng.random() < 0.7 else [z0, z0, int(rng.choice(SPECIES))]
        stacked, flat, n_orb = True, False, 3
    try:
        at = crystal(symbols, basis, spacegroup=no, cellpar=[a, b, L, 90, 90, gamma], onduplicates="error", symprec=1e-4)
    except Exception:
        return None, None
    z = at.get_scaled_positions()[:, 2]
    if (np.abs(z - 0.5) * L > 1.6).any() or len(at) > 40 or min_distance(at) < 0.9:
        return None, None
    at = Atoms(numbers=at.get_atomic_numbers(), positions=at.get_positions(), cell=at.get_cell().array, pbc=[True, True, False])
    return at, {"source": "generated", "layer_group": no, "lattice": LAYER_GROUPS[no], "flat": bool(flat), "natoms": len(at),
                "stacked_elemental": bool(stacked)}


def known_layer(rng):
    from ase.build import graphene, mx2
    k = int(rng.integers(5))
    if k == 0:
        a = graphene(vacuum=8.0)
        name = "graphene"
    elif k == 1:
        a = graphene(formula="BN", a=2.504, vacuum=8.0)
        name = "h-BN"
    elif k == 2:
        a = mx2("MoS2", kind="2H", a=3.18, thickness=3.19, vacuum=8.0)
        name = "2H-MoS2"
    elif k == 3:
        a = mx2("WSe2", kind="1T", a=3.32, thickness=3.1, vacuum=8.0)
        name = "1T-WSe2"
    else:
        a = mx2("TiS2", kind="1T", a=3.41, thickness=2.85, vacuum=8.0)
        name = "1T-TiS2"
    a = Atoms(numbers=a.get_atomic_numbers(), positions=a.get_positions(), cell=a.get_cell().array, pbc=[True, True, False])
    a.center(axis=2)
    return a, {"source": name, "natoms": len(a), "flat": name in ("graphene", "h-BN")}


def analysed_replica(atoms):
    """The cell MatID analyses for a 2D input (vacuum = max(5, 3*thickness) along the non-periodic vector) -
    replicated here only to decide whether a sample is well conditioned."""
    pbc = atoms.get_pbc()
    i = int(np.argwhere(~pbc)[0][0])
    s = atoms.get_scaled_positions(wrap=False)[:, i]
    cell = atoms.get_cell().array.copy()
    thick = (s.max() - s.min()) * np.linalg.norm(cell[i])
    cell[i] = cell[i] / np.linalg.norm(cell[i]) * max(5.0, 3 * thick)
    rep = atoms.copy()
    rep.set_cell(cell)
    return rep


def well_conditioned(atoms, tol):
    rep = analysed_replica(atoms)
    from ase.geometry import cell_to_cellpar
    nums = set()
    pars = []
    for sp in (tol / 10, tol, tol * 10):
        ds = spglib.get_symmetry_dataset((rep.get_cell().array, rep.get_scaled_positions(), rep.get_atomic_numbers()), symprec=sp)
        if ds is None:
            return False, None
        nums.add((int(ds.number), len(ds.std_types)))
        pars.append(np.asarray(cell_to_cellpar(np.asarray(ds.std_lattice))))
    pars = np.array(pars)
    lattice_stable = np.abs(pars[:, :3] - pars[1, :3]).max() <= 1e-5 * pars[1, :3].max() and np.abs(pars[:, 3:] - pars[1, 3:]).max() <= 1e-3
    return len(nums) == 1 and bool(lattice_stable), next(iter(nums))[0]


def random_layer(rng, tol=0.01, tries=30):
    for _ in range(tries):
        if rng.random() < 0.25:
            a, meta = known_layer(rng)
        else:
            a, meta = generated_layer(rng)
        if a is None:
            continue
        ok, no = well_conditioned(a, tol)
        if ok:
            meta["spglib_group_of_analysed_cell"] = no
            return a, meta
    return None, None


def present(rng, atoms):
    """Re-presentation of the same sheet: vacuum factor 0.6-2.0, relabelled axes, in-plane supercell, SO(3) rotation
    (flips included), translation, permutation."""
    a = atoms.copy()
    info = {}
    cell = a.get_cell().array.copy()
    pos = a.get_positions().copy()
    # vacuum
    s = a.get_scaled_positions(wrap=False)[:, 2]
    thick = (s.max() - s.min()) * np.linalg.norm(cell[2])
    f = float(rng.uniform(0.6, 2.0))
    newlen = max(np.linalg.norm(cell[2]) * f, thick + 4.0)
    cell[2] = cell[2] / np.linalg.norm(cell[2]) * newlen
    info["vacuum_factor"] = round(f, 3)
    a = Atoms(numbers=a.get_atomic_numbers(), positions=pos, cell=cell, pbc=[True, True, False])
    # in-plane supercell
    if rng.random() < 0.5:
        reps = (int(rng.integers(1, 3)), int(rng.integers(1, 3)), 1)
        a = a.repeat(reps)
        info["supercell"] = list(reps)
    # rigid motion (proper rotation: flips of the sheet included), translation
    R = cells.random_rotation(rng)
    if rng.random() < 0.3:
        R = np.diag([1.0, -1.0, -1.0]) @ R
    t = rng.uniform(-5, 5, 3)
    a.set_cell(a.get_cell().array @ R.T)
    a.set_positions(a.get_positions() @ R.T + t)
    info["rotated"] = True
    # axis relabelling (all 6 permutations)
    perm = [int(x) for x in rng.permutation(3)]
    c = a.get_cell().array[perm]
    pbc = np.array([True, True, False])[perm]
    a = Atoms(numbers=a.get_atomic_numbers(), positions=a.get_positions(), cell=c, pbc=pbc)
    info["axis_permutation"] = perm
    # atom order
    a = a[rng.permutation(len(a))]
    a = Atoms(numbers=a.get_atomic_numbers(), positions=a.get_positions(), cell=a.get_cell().array, pbc=a.get_pbc())
    return a, info
