"""Enumerated case universe for the recognition properties (C02, C03, C04, C18): single crystals (bulk supercells
and slabs), two-material stacks, slabs with adsorbates and monolayers.

A *cell* is a finite description (material, kind, facet, layers, pbc, noise, ...); every cell owns a finite pool
of presentations (rotation, translation, permutation, SBC seed, noise realisation) derived deterministically from
(cell key, seed class, k).  The independent bonding precondition lives here too."""
import hashlib
import itertools

import numpy as np
from ase import Atoms
from ase.build import bulk, surface
from ase.data import reference_states, chemical_symbols, covalent_radii, atomic_numbers

from . import cells as _cells
from oracles import mic as omic

MAX_CELL_SIZE = 6.0
BOND_THRESHOLD = 0.65
OVERLAP_THRESHOLD = -0.6
MARGIN = 0.1

FACETS = [(1, 0, 0), (1, 1, 0), (1, 1, 1), (0, 0, 1)]


def elements():
    out = []
    for z, rs in enumerate(reference_states):
        if rs is None or z > 103:
            continue
        if rs.get("symmetry") in ("fcc", "bcc", "hcp", "diamond", "sc"):
            out.append((chemical_symbols[z], rs["symmetry"]))
    return out


COMPOUNDS = {
    "NaCl": ("rocksalt", dict(a=5.64)), "MgO": ("rocksalt", dict(a=4.21)), "LiF": ("rocksalt", dict(a=4.03)),
    "ZnS": ("zincblende", dict(a=5.41)), "GaAs": ("zincblende", dict(a=5.65)), "SiC": ("zincblende", dict(a=4.36)),
    "CsCl": ("cesiumchloride", dict(a=4.12)), "CsBr": ("cesiumchloride", dict(a=4.29)),
    "CaF2": ("fluorite", dict(a=5.46)), "Li2O": ("antifluorite", dict(a=4.62)),
    "ZnO": ("wurtzite", dict(a=3.25, c=5.21)), "GaN": ("wurtzite", dict(a=3.19, c=5.19)),
    "SrTiO3": ("perovskite", dict(a=3.905)), "BaTiO3": ("perovskite", dict(a=4.0)),
    "TiO2": ("rutile", dict(a=4.59, c=2.96, u=0.305)), "SnO2": ("rutile", dict(a=4.74, c=3.19, u=0.307)),
}


def conventional_cell(material):
    """Conventional (orthogonal where possible) unit cell and the primitive cell of a material."""
    from ase.spacegroup import crystal
    if material in COMPOUNDS:
        proto, kw = COMPOUNDS[material]
        if proto in ("rocksalt", "zincblende", "cesiumchloride"):
            conv = bulk(material, proto, a=kw["a"], cubic=True) if proto != "cesiumchloride" else bulk(material, proto, a=kw["a"])
            prim = bulk(material, proto, a=kw["a"])
        elif proto == "fluorite":
            conv = bulk(material, "fluorite", a=kw["a"], cubic=True)
            prim = bulk(material, "fluorite", a=kw["a"])
        elif proto == "antifluorite":
            conv = crystal(["O", "Li"], [(0, 0, 0), (0.25, 0.25, 0.25)], spacegroup=225, cellpar=[kw["a"]] * 3 + [90] * 3)
            prim = crystal(["O", "Li"], [(0, 0, 0), (0.25, 0.25, 0.25)], spacegroup=225, cellpar=[kw["a"]] * 3 + [90] * 3, primitive_cell=True)
        elif proto == "wurtzite":
            conv = bulk(material, "wurtzite", a=kw["a"], c=kw["c"])
            prim = conv.copy()
        elif proto == "perovskite":
            A, B = ("Sr", "Ti") if material == "SrTiO3" else ("Ba", "Ti")
            conv = crystal([A, B, "O"], [(0, 0, 0), (0.5, 0.5, 0.5), (0.5, 0.5, 0)], spacegroup=221, cellpar=[kw["a"]] * 3 + [90] * 3)
            prim = conv.copy()
        elif proto == "rutile":
            M = "Ti" if material == "TiO2" else "Sn"
            conv = crystal([M, "O"], [(0, 0, 0), (kw["u"], kw["u"], 0)], spacegroup=136, cellpar=[kw["a"], kw["a"], kw["c"], 90, 90, 90])
            prim = conv.copy()
        else:
            raise ValueError(proto)
        return _plain(conv), _plain(prim), proto
    sym = reference_states[atomic_numbers[material]]["symmetry"]
    prim = bulk(material)
    if sym in ("fcc", "bcc", "diamond", "sc"):
        conv = bulk(material, cubic=True)
    else:
        conv = bulk(material)
    return _plain(conv), _plain(prim), sym


def _plain(a):
    return Atoms(numbers=a.get_atomic_numbers(), positions=a.get_positions(), cell=a.get_cell().array, pbc=a.get_pbc())


def heights(cell):
    cell = np.asarray(cell, float)
    vol = abs(np.linalg.det(cell))
    return vol / np.array([np.linalg.norm(np.cross(cell[1], cell[2])), np.linalg.norm(np.cross(cell[2], cell[0])),
                           np.linalg.norm(np.cross(cell[0], cell[1]))])


def repeats_for(cell, pbc, min_height):
    h = heights(cell)
    return [int(np.ceil((min_height + 1e-6) / h[i])) if pbc[i] else 1 for i in range(3)]


def make_bulk(material, min_height=2 * MAX_CELL_SIZE + 0.3):
    conv, prim, proto = conventional_cell(material)
    reps = repeats_for(conv.get_cell().array, [True] * 3, min_height)
    a = conv.repeat(reps)
    a.set_pbc(True)
    return _plain(a), prim, proto


def make_slab(material, facet, layers, pbc_z, min_height=2 * MAX_CELL_SIZE + 0.3, vacuum=8.0, min_lateral=None):
    conv, prim, proto = conventional_cell(material)
    s = surface(conv, facet, layers, vacuum=vacuum)
    s = _plain(s)
    reps = repeats_for(s.get_cell().array, [True, True, False], max(min_height, min_lateral or 0))
    s = s.repeat((reps[0], reps[1], 1))
    s.set_pbc([True, True, bool(pbc_z)])
    return _plain(s), prim, proto


def bonding_precondition(atoms, threshold=BOND_THRESHOLD, overlap=OVERLAP_THRESHOLD, margin=MARGIN, radii=None):
    """Independent precondition of C02/C03/C18: every atom has a bonded neighbour with margin, nothing overlaps with
    margin, the bonding graph is connected.  Brute-force MIC distances, ASE covalent radii."""
    n = len(atoms)
    if n < 2:
        return False, "too_few_atoms"
    r = np.asarray(covalent_radii)[atoms.get_atomic_numbers()] if radii is None else np.asarray(radii)
    pos = atoms.get_positions()
    iu = np.triu_indices(n, 1)
    try:
        _, d, _ = omic.mic_vectors(pos[iu[0]] - pos[iu[1]], atoms.get_cell().array, atoms.get_pbc())
    except (OverflowError, ValueError):
        return False, "oracle_unavailable"
    corr = d - r[iu[0]] - r[iu[1]]
    if corr.min() < overlap + margin:
        return False, "overlapping_atoms"
    bonded = corr <= threshold - margin
    nb = np.zeros(n, int)
    np.add.at(nb, iu[0][bonded], 1)
    np.add.at(nb, iu[1][bonded], 1)
    if (nb == 0).any():
        return False, "atom_without_bonded_neighbour"
    # ambiguous pairs (within the margin band around the threshold) make the case ill-conditioned
    if np.any((corr > threshold - margin) & (corr < threshold + margin)):
        return False, "pair_in_threshold_margin"
    parent = list(range(n))

    def find(i):
        while parent[i] != i:
            parent[i] = parent[parent[i]]
            i = parent[i]
        return i
    for a, b in zip(iu[0][bonded], iu[1][bonded]):
        ra, rb = find(a), find(b)
        if ra != rb:
            parent[ra] = rb
    if len(set(find(i) for i in range(n))) != 1:
        return False, "bonding_graph_disconnected"
    return True, None


def primitive_ok(prim, max_cell_size=MAX_CELL_SIZE, margin=0.2):
    lens = np.linalg.norm(prim.get_cell().array, axis=1)
    return bool(lens.max() < max_cell_size - margin) and len(prim) <= 6


def stable_seed(*parts):
    h = hashlib.sha256("|".join(str(p) for p in parts).encode()).digest()
    return int.from_bytes(h[:8], "little")


def present(atoms, rng, noise=0.0, track=None):
    """Rigid SO(3) rotation of cell and atoms, translation, permutation, per-atom random displacement of length
    `noise`.  `track`: dict name -> index list, mapped through the permutation."""
    a = atoms.copy()
    n = len(a)
    pos = a.get_positions()
    if noise > 0:
        d = rng.normal(size=(n, 3))
        d /= np.linalg.norm(d, axis=1)[:, None]
        pos = pos + d * noise * rng.random((n, 1))
    R = _cells.random_rotation(rng)
    t = rng.uniform(-15, 15, 3)        # large enough to move a slab out of its cell along a non-periodic direction
    cell = a.get_cell().array @ R.T
    pos = pos @ R.T + t
    perm = rng.permutation(n)
    out = Atoms(numbers=a.get_atomic_numbers()[perm], positions=pos[perm], cell=cell, pbc=a.get_pbc())
    inv = np.empty(n, int)
    inv[perm] = np.arange(n)
    mapped = {k: sorted(int(inv[i]) for i in v) for k, v in (track or {}).items()}
    return out, mapped


# ------------------------------------------------------------------------------------------- C02 universe
def c02_cells():
    mats = [m for m, _ in elements()] + list(COMPOUNDS)
    cells = []
    for m in mats:
        for noise in (0.0, 0.02, 0.05):
            cells.append({"material": m, "kind": "bulk", "noise": noise})
            for facet in FACETS:
                for layers in (3, 4):
                    for pbc_z in (True, False):
                        cells.append({"material": m, "kind": "slab", "facet": list(facet), "layers": layers, "pbc_z": pbc_z, "noise": noise})
    for c in cells:
        c["key"] = cell_key(c)
    return cells


def cell_key(c):
    if c["kind"] == "bulk":
        return "%s|bulk|n%.2f" % (c["material"], c["noise"])
    if c["kind"] == "slab":
        return "%s|slab|%s|L%d|%s|n%.2f" % (c["material"], "".join(str(i) for i in c["facet"]), c["layers"], "TTT" if c["pbc_z"] else "TTF", c["noise"])
    raise ValueError(c)


def build_c02(cell):
    if cell["kind"] == "bulk":
        a, prim, proto = make_bulk(cell["material"])
        dim = 3
    else:
        a, prim, proto = make_slab(cell["material"], tuple(cell["facet"]), cell["layers"], cell["pbc_z"])
        dim = 2
    return a, prim, proto, dim


# ------------------------------------------------------------------------------------------- C03 universe
FCC_METALS = ["Al", "Ca", "Ni", "Cu", "Sr", "Rh", "Pd", "Ag", "Ce", "Yb", "Ir", "Pt", "Au", "Pb", "Ac", "Th"]
BCC_METALS = ["Li", "Na", "K", "V", "Cr", "Fe", "Rb", "Nb", "Mo", "Cs", "Ba", "Eu", "Ta", "W"]


def _a(sym):
    return float(reference_states[atomic_numbers[sym]]["a"])


def c03_pairs(max_mismatch=0.05):
    out = []
    for group, facets in ((FCC_METALS, ("100", "111")), (BCC_METALS, ("100", "110"))):
        for A, B in itertools.permutations(group, 2):
            if abs(_a(B) - _a(A)) / _a(A) < max_mismatch:
                for f in facets:
                    out.append((A, B, f))
    return out


def c03_cells():
    cells = []
    for A, B, f in c03_pairs():
        for la, lb in ((3, 3), (4, 3), (3, 5)):
            for nlat in (4, 5):
                for pbc_z in (True, False):
                    for noise in (0.0, 0.03):
                        for reg in ("ontop", "hollow"):
                            c = {"A": A, "B": B, "facet": f, "la": la, "lb": lb, "n": nlat, "pbc_z": pbc_z, "noise": noise, "registry": reg}
                            c["key"] = "%s/%s|%s|L%d+%d|%dx%d|%s|n%.2f|%s" % (A, B, f, la, lb, nlat, nlat, "TTT" if pbc_z else "TTF", noise, reg)
                            cells.append(c)
                            if pbc_z:
                                # periodic superlattice A/B/A/B... without vacuum: the stacking direction is periodic and
                                # its period may be short (second interface at the same spacing as the first)
                                c2 = dict(c, vac=False)
                                c2["key"] = c["key"] + "|novac"
                                cells.append(c2)
                                if reg == "hollow":
                                    # the same superlattice with a compact interface: the two materials meet at the
                                    # nearest-neighbour distance of a bulk metal (sum of the covalent radii - 0.12 A)
                                    # instead of + 0.25 A, i.e. the stack continues like one crystal and each slab's
                                    # periodic images are as close as the family allows
                                    c3 = dict(c, vac=False, delta=-0.12)
                                    c3["key"] = c["key"] + "|novac|compact"
                                    cells.append(c3)
    return cells


def _metal_slab(sym, facet, n, layers, a):
    from ase.build import fcc100, fcc111, bcc100, bcc110
    lat = reference_states[atomic_numbers[sym]]["symmetry"]
    if lat == "fcc":
        fn = fcc100 if facet == "100" else fcc111
    else:
        fn = bcc100 if facet == "100" else bcc110
    s = fn(sym, size=(n, n, layers), a=a, vacuum=0.0)
    return _plain(s)


def build_c03(cell, delta=0.25, vacuum=9.0):
    """Returns (atoms, {'A': indices, 'B': indices})"""
    A, B, f, n = cell["A"], cell["B"], cell["facet"], cell["n"]
    sa = _metal_slab(A, f, n, cell["la"], _a(A))
    sb = _metal_slab(B, f, n, cell["lb"], _a(B))
    ca, cb = sa.get_cell().array, sb.get_cell().array
    # strain B in plane onto A's surface cell (its own layer spacing is kept)
    newcb = np.array([ca[0], ca[1], cb[2]])
    sb.set_cell(newcb, scale_atoms=False)
    frac = np.linalg.solve(cb[:2, :2].T, sb.get_positions()[:, :2].T).T
    posb = sb.get_positions()
    posb[:, :2] = frac @ ca[:2, :2]
    sb.set_positions(posb)
    za, zb = sa.get_positions()[:, 2], sb.get_positions()[:, 2]
    top = sa.get_positions()[np.abs(za - za.max()) < 1e-6]
    bot_mask = np.abs(zb - zb.min()) < 1e-6
    bot = sb.get_positions()[bot_mask]
    u1, u2 = ca[0] / n, ca[1] / n
    delta = cell.get("delta", delta)
    target = covalent_radii[atomic_numbers[A]] + covalent_radii[atomic_numbers[B]] + delta
    # lateral registry: B's bottom layer on top of / in the hollows of A's top layer
    shift = top[0, :2] - bot[0, :2]
    if cell["registry"] == "hollow":
        shift = shift + (0.5 * (u1 + u2))[:2] if f == "100" else shift + ((u1 + u2) / 3.0)[:2]
    posb = sb.get_positions()
    posb[:, :2] += shift
    # lateral distance from a bottom-B atom to the nearest top-A atom (with in-plane periodicity)
    pb = posb[bot_mask][0, :2]
    best = np.inf
    for i, j in itertools.product(range(-1, 2), repeat=2):
        d = np.linalg.norm(top[:, :2] + i * ca[0, :2] + j * ca[1, :2] - pb, axis=1).min()
        best = min(best, d)
    if best >= target:
        dz = 0.5
    else:
        dz = float(np.sqrt(target ** 2 - best ** 2))
    posb[:, 2] += za.max() + dz - zb.min()
    sb.set_positions(posb)
    both = sa + sb
    height = posb[:, 2].max() - za.min()
    if not cell.get("vac", True):
        vacuum = dz
    cell3 = np.array([ca[0], ca[1], [0, 0, height + vacuum]])
    both.set_cell(cell3)
    both.set_pbc([True, True, bool(cell["pbc_z"])])
    both.translate([0, 0, vacuum / 2 - za.min()])
    return _plain(both), {"A": list(range(len(sa))), "B": list(range(len(sa), len(sa) + len(sb)))}


def interface_precondition(atoms, groups, threshold=BOND_THRESHOLD, margin=MARGIN):
    """the two slabs are bonded across the interface (some A-B pair bonded with margin)"""
    r = np.asarray(covalent_radii)[atoms.get_atomic_numbers()]
    pos = atoms.get_positions()
    ia, ib = np.array(groups["A"]), np.array(groups["B"])
    diffs = (pos[ia][:, None, :] - pos[ib][None, :, :]).reshape(-1, 3)
    _, d, _ = omic.mic_vectors(diffs, atoms.get_cell().array, atoms.get_pbc())
    corr = d.reshape(len(ia), len(ib)) - r[ia][:, None] - r[ib][None, :]
    return bool((corr <= threshold - margin).any())


# ------------------------------------------------------------------------------------------- monolayers (C04, C18)
MONOLAYERS = ["graphene", "h-BN", "2H-MoS2", "2H-WS2", "1T-TiS2", "1T-WSe2"]


def monolayer_unit(name, vacuum=6.0):
    from ase.build import graphene, mx2
    if name == "graphene":
        a = graphene(vacuum=vacuum)
    elif name == "h-BN":
        a = graphene(formula="BN", a=2.504, vacuum=vacuum)
    elif name == "2H-MoS2":
        a = mx2("MoS2", kind="2H", a=3.18, thickness=3.19, vacuum=vacuum)
    elif name == "2H-WS2":
        a = mx2("WS2", kind="2H", a=3.18, thickness=3.14, vacuum=vacuum)
    elif name == "1T-TiS2":
        a = mx2("TiS2", kind="1T", a=3.41, thickness=2.85, vacuum=vacuum)
    elif name == "1T-WSe2":
        a = mx2("WSe2", kind="1T", a=3.32, thickness=3.1, vacuum=vacuum)
    else:
        raise ValueError(name)
    a = _plain(a)
    a.set_pbc([True, True, False])
    return a


def make_monolayer(name, n, pbc_z, vacuum=7.0):
    u = monolayer_unit(name, vacuum=vacuum)
    a = u.repeat((n, n, 1))
    a.set_pbc([True, True, bool(pbc_z)])
    return _plain(a), u


def monolayer_cells():
    cells = []
    for m in MONOLAYERS:
        for n in (3, 4, 5, 6):
            for pbc_z in (True, False):
                c = {"material": m, "kind": "monolayer", "n": n, "pbc_z": pbc_z, "noise": 0.0}
                c["key"] = "%s|monolayer|%dx%d|%s" % (m, n, n, "TTT" if pbc_z else "TTF")
                cells.append(c)
    return cells


def c04_cells():
    cells = [c for c in c02_cells() if c["noise"] in (0.0, 0.02)]
    extra = []
    for c in monolayer_cells():
        if c["n"] >= 5:          # SBC needs periodic heights > 2*max_cell_size
            extra.append(c)
            c2 = dict(c, noise=0.02)
            c2["key"] = c["key"] + "|n0.02"
            extra.append(c2)
    return cells + extra


# ------------------------------------------------------------------------------------------- C18 universe
ADSORBATES = ["H", "O", "C", "N", "F", "S", "Cl"]


def c18_cells():
    cells = []
    mats = elements() + [(m, COMPOUNDS[m][0]) for m in COMPOUNDS]
    for m, lat in mats:
        for facet in FACETS:
            f = "".join(str(i) for i in facet)
            if lat == "bcc" and f in ("110", "111"):
                continue                      # open / thin cuts excluded by the property
            if lat == "hcp" and f == "111":
                continue
            for layers in (3, 4, 5):
                for nads in (0, 1, 2):
                    c = {"material": m, "kind": "slab", "facet": list(facet), "layers": layers, "n_ads": nads}
                    c["key"] = "%s|slab|%s|L%d|ads%d" % (m, f, layers, nads)
                    cells.append(c)
    for c in monolayer_cells():
        if c["pbc_z"]:
            c = dict(c, key="%s|monolayer|%dx%d" % (c["material"], c["n"], c["n"]))
            cells.append(c)
    return cells


def build_c18(cell, rng, min_lateral=9.0, vacuum=10.0):
    """Returns (atoms, adsorbate index list, proto, prim)."""
    if cell["kind"] == "monolayer":
        a, u = make_monolayer(cell["material"], cell["n"], True, vacuum=8.0)
        return a, [], "monolayer", u
    conv, prim, proto = conventional_cell(cell["material"])
    s = surface(conv, tuple(cell["facet"]), cell["layers"], vacuum=vacuum)
    s = _plain(s)
    reps = repeats_for(s.get_cell().array, [True, True, False], min_lateral)
    s = s.repeat((reps[0], reps[1], 1))
    s.set_pbc(True)
    ads = []
    if cell["n_ads"]:
        species = [x for x in ADSORBATES if atomic_numbers[x] not in set(s.get_atomic_numbers())]
        z = s.get_positions()[:, 2]
        top = np.nonzero(z > z.max() - 0.3)[0]
        first = int(top[int(rng.integers(len(top)))])
        chosen = [first]
        if cell["n_ads"] == 2:
            # the top atom farthest (in plane, MIC) from the first one
            pos = s.get_positions()
            _, d, _ = omic.mic_vectors(pos[top] - pos[first], s.get_cell().array, [True, True, False])
            chosen.append(int(top[int(np.argmax(d))]))
        pos = s.get_positions()
        for k, i in enumerate(chosen):
            X = species[int(rng.integers(len(species)))]
            h = covalent_radii[atomic_numbers[X]] + covalent_radii[s.get_atomic_numbers()[i]] + 0.2
            s += Atoms(X, positions=[pos[i] + np.array([0, 0, h])])
            ads.append(len(s) - 1)
    return _plain(s), ads, proto, prim
