"""Crystals in all 230 space groups, generated from ASE's space-group tables (independent of MatID's tables).

Orbit generators are general points or special points found by an affine-subspace sampler (solve the stacked
system (R-I)x = -(t+n) for 1-3 random operations and lattice shifts; add a random null-space vector), which
reaches every site symmetry without consulting any Wyckoff table."""
import itertools

import numpy as np
import spglib
from ase import Atoms
from ase.spacegroup import Spacegroup, crystal

from . import cells

SPECIES = [3, 6, 8, 12, 14, 16, 20, 22, 26, 29, 30, 38, 47, 50, 56, 74, 79, 82]


def crystal_system(no):
    if no <= 2:
        return "triclinic"
    if no <= 15:
        return "monoclinic"
    if no <= 74:
        return "orthorhombic"
    if no <= 142:
        return "tetragonal"
    if no <= 167:
        return "trigonal"
    if no <= 194:
        return "hexagonal"
    return "cubic"


LAST_LATTICE_MODE = "generic"


def near_metric_cellpar(rng, no):
    """Pseudo-symmetric lattices: the free parameters lie 1.2-6 degrees / 1.5-5 % away from a more symmetric
    metric (beta near 90, triclinic angles near 90, a near b, c near a).  Far enough for the conditioning window
    (10*tol = 0.1 A on 4-9 A vectors), close enough that any angular or relative tolerance that replaces the
    distance tolerance of the symmetry search would merge them."""
    cs = crystal_system(no)

    def off():
        return float(rng.choice([-1, 1]) * rng.uniform(1.2, 6.0))

    def near(x):
        return float(x * (1 + rng.choice([-1, 1]) * rng.uniform(0.015, 0.05)))
    a, b, c = (float(x) for x in rng.uniform(4.0, 9.5, 3))
    if cs == "triclinic":
        k = int(rng.integers(0, 3))
        ang = [90 + off(), 90 + off(), 90 + off()]
        if k == 1:
            ang[int(rng.integers(3))] = float(rng.uniform(70, 110))
        if rng.random() < 0.3:
            b = near(a)
        return [a, b, c] + ang
    if cs == "monoclinic":
        if rng.random() < 0.3:
            c = near(a)
        return [a, b, c, 90, 90 + abs(off()), 90]
    if cs == "orthorhombic":
        j = int(rng.integers(3))
        l = [a, b, c]
        l[(j + 1) % 3] = near(l[j])
        return l + [90, 90, 90]
    if cs == "tetragonal":
        return [a, a, near(a), 90, 90, 90]
    if cs in ("trigonal", "hexagonal"):
        return [a, a, near(a) if rng.random() < 0.5 else near(a * 1.633), 90, 90, 120]
    return [a, a, a, 90, 90, 90]


def random_cellpar(rng, no, near_metric=None):
    """near_metric: None = 30 % of the non-cubic draws, True = always."""
    cs = crystal_system(no)
    global LAST_LATTICE_MODE
    LAST_LATTICE_MODE = "generic"
    if cs != "cubic" and (near_metric or rng.random() < 0.3):
        LAST_LATTICE_MODE = "near_metric"
        return near_metric_cellpar(rng, no)
    for _ in range(100):
        l = np.sort(rng.uniform(4.0, 9.5, 3))
        if l[1] / l[0] < 1.07 or l[2] / l[1] < 1.07:
            continue
        l = l[rng.permutation(3)]
        a, b, c = (float(x) for x in l)
        if cs == "triclinic":
            al, be, ga = (float(x) for x in rng.uniform(70, 110, 3))
            if min(abs(al - 90), abs(be - 90), abs(ga - 90)) < 4 or abs(al - be) < 3 or abs(be - ga) < 3 or abs(al - ga) < 3:
                continue
            # valid angle triple?
            ca, cb, cg = np.cos(np.radians([al, be, ga]))
            if 1 - ca * ca - cb * cb - cg * cg + 2 * ca * cb * cg <= 0.05:
                continue
            return [a, b, c, al, be, ga]
        if cs == "monoclinic":
            return [a, b, c, 90, float(rng.uniform(97, 118)), 90]
        if cs == "orthorhombic":
            return [a, b, c, 90, 90, 90]
        if cs == "tetragonal":
            return [a, a, c, 90, 90, 90]
        if cs in ("trigonal", "hexagonal"):
            return [a, a, c, 90, 90, 120]
        return [a, a, a, 90, 90, 90]
    return [5.0, 6.1, 7.3, 90, 90, 90]


_ops_cache = {}


def group_ops(no):
    """All operations (R, t) of the ASE setting-1 group, centring translations included."""
    if no not in _ops_cache:
        sg = Spacegroup(no)
        _ops_cache[no] = [(np.array(r, int), np.array(t, float)) for r, t in sg.get_symop()]
    return _ops_cache[no]


def special_point(rng, no, n_ops=None):
    """Random point of a random site-symmetry stratum.  Returns (x, n_fixing_ops_requested)."""
    ops = group_ops(no)
    k = int(rng.integers(1, 4)) if n_ops is None else n_ops
    for _ in range(30):
        sel = [ops[int(i)] for i in rng.integers(1, len(ops), size=k)] if len(ops) > 1 else []
        if not sel:
            return rng.random(3), 0
        rows, rhs = [], []
        for R, t in sel:
            n = rng.integers(-1, 2, size=3)
            rows.append(R - np.eye(3))
            rhs.append(-(t + n))
        Mx = np.vstack(rows)
        bx = np.concatenate(rhs)
        x0, *_ = np.linalg.lstsq(Mx, bx, rcond=None)
        if np.abs(Mx @ x0 - bx).max() > 1e-9:
            continue
        u, s, vt = np.linalg.svd(Mx)
        rank = int((s > 1e-9).sum())
        null = vt[rank:]
        x = x0 + (rng.uniform(-0.5, 0.5, size=len(null)) @ null if len(null) else 0)
        return np.mod(x, 1.0), k
    return rng.random(3), 0


def min_distance(atoms):
    if len(atoms) < 2:
        return np.inf
    d = atoms.get_all_distances(mic=True)
    d[np.diag_indices_from(d)] = np.inf
    return float(d.min())


def build(rng, no, n_orbits=None, special_bias=0.5, max_atoms=120, scale=1.0, near_metric=None, general_first=False):
    """One crystal of (intended) group `no` in ASE setting 1.  Returns (atoms, meta) or (None, reason)."""
    n_orbits = n_orbits or int(rng.integers(1, 4))
    cellpar = random_cellpar(rng, no, near_metric)
    cellpar = [x * scale for x in cellpar[:3]] + list(cellpar[3:])
    basis, kinds = [], []
    if general_first:
        n_orbits = max(2, n_orbits)
    for i_orb in range(n_orbits):
        if rng.random() < special_bias and not (general_first and i_orb == 0):
            x, k = special_point(rng, no)
            kinds.append("special%d" % k)
        else:
            x = rng.random(3)
            kinds.append("general")
        basis.append(tuple(float(v) for v in x))
    if rng.random() < 0.7:
        symbols = [int(z) for z in rng.choice(SPECIES, size=n_orbits, replace=False)]
    else:
        symbols = [int(z) for z in rng.choice(SPECIES, size=n_orbits, replace=True)]
    prim = bool(rng.random() < 0.35)
    try:
        a = crystal(symbols, basis, spacegroup=no, cellpar=cellpar, onduplicates="error", primitive_cell=prim, symprec=1e-4)
    except Exception as e:
        return None, "crystal():" + type(e).__name__
    if len(a) > max_atoms:
        if not prim:
            try:
                a = crystal(symbols, basis, spacegroup=no, cellpar=cellpar, onduplicates="error", primitive_cell=True, symprec=1e-4)
                prim = True
            except Exception as e:
                return None, "crystal():" + type(e).__name__
        if len(a) > max_atoms:
            return None, "too_many_atoms"
    if min_distance(a) < 0.7:
        return None, "atoms_too_close"
    a = Atoms(numbers=a.get_atomic_numbers(), positions=a.get_positions(), cell=a.get_cell().array, pbc=True)
    meta = {"group": no, "cellpar": [round(x, 5) for x in cellpar], "basis": [list(b) for b in basis], "symbols": symbols,
            "orbit_kinds": kinds, "primitive_input": prim, "natoms": len(a), "system": crystal_system(no),
            "lattice_mode": LAST_LATTICE_MODE}
    return a, meta


def dataset(atoms, symprec):
    return spglib.get_symmetry_dataset((atoms.get_cell().array, atoms.get_scaled_positions(), atoms.get_atomic_numbers()),
                                       symprec=symprec)


def stable(atoms, no, tol):
    """The family's conditioning rule: spglib at tol/10, tol, 10*tol reports the intended group and one
    standardized atom count.  Returns (ok, reason, dataset at tol)."""
    from ase.geometry import cell_to_cellpar
    counts = set()
    mid = None
    pars = []
    for sp in (tol / 10.0, tol, tol * 10.0):
        ds = dataset(atoms, sp)
        if ds is None:
            return False, "spglib_none", None
        if ds.number != no:
            return False, "group_%s" % ("higher" if sp == tol else "unstable"), None
        counts.add(len(ds.std_types))
        pars.append(np.asarray(cell_to_cellpar(np.asarray(ds.std_lattice))))
        if sp == tol:
            mid = ds
    if len(counts) != 1:
        return False, "std_count_unstable", None
    # the standardized lattice itself must be stable over the window: in monoclinic / triclinic lattices two
    # reduced cells whose lengths differ by less than the tolerance are chosen arbitrarily (presentation dependent)
    pars = np.array(pars)
    if np.abs(pars[:, :3] - pars[1, :3]).max() > 1e-5 * pars[1, :3].max() or np.abs(pars[:, 3:] - pars[1, 3:]).max() > 1e-3:
        return False, "std_lattice_unstable", None
    return True, None, mid


def make_crystal(rng, no, tol, tries=80, special_bias=0.5, max_atoms=120, near_metric=None, general_first=False):
    """Tries until a well-conditioned crystal of group `no` is found.  Returns (atoms, meta, discards)."""
    discards = {}
    for k in range(tries):
        # more orbits / more general points as attempts fail (low-symmetry groups need them)
        n_orb = int(rng.integers(1, 4)) if k < tries // 2 else 3
        bias = special_bias if k < tries // 2 else special_bias / 2
        a, meta = build(rng, no, n_orbits=n_orb, special_bias=bias, max_atoms=max_atoms, scale=1.0 + 0.6 * k / tries, near_metric=near_metric,
                        general_first=general_first)
        if a is None:
            discards[meta] = discards.get(meta, 0) + 1
            continue
        ok, reason, ds = stable(a, no, tol)
        if not ok:
            discards[reason] = discards.get(reason, 0) + 1
            continue
        meta["tries"] = k + 1
        return a, meta, discards
    return None, None, discards


def random_supercell_matrix(rng, maxdet=4):
    U = cells.random_unimodular(rng, steps=int(rng.integers(0, 4)), maxmult=1)
    d = int(rng.choice([1, 1, 2, 3, 4]))
    D = np.eye(3, dtype=int)
    if d == 4 and rng.random() < 0.5:
        i, j = rng.choice(3, 2, replace=False)
        D[i, i] = 2
        D[j, j] = 2
    elif d > 1:
        ax = int(rng.integers(3))
        D[ax, ax] = d
    P = D @ U
    det = int(round(np.linalg.det(P)))
    if det < 0:
        P[0] *= -1
        det = -det
    return P, det


def present(rng, atoms, max_atoms=120, allow_supercell=True):
    """A random re-presentation of the same crystal: supercell (|det|<=4) / unimodular basis change, proper
    rotation, translation in [-5,5] A, permutation, wrapped or unwrapped.  Returns (atoms2, info)."""
    from ase.build import make_supercell
    info = {}
    a = atoms.copy()
    P, det = random_supercell_matrix(rng) if allow_supercell else (np.eye(3, dtype=int), 1)
    if det * len(a) > max_atoms:
        P, det = cells.random_unimodular(rng, steps=2, maxmult=1), 1
        if round(np.linalg.det(P)) < 0:
            P[0] *= -1
    if rng.random() < 0.2:
        # a left-handed description of the same crystal (unimodular / supercell matrix with negative determinant)
        P = P.copy()
        P[[0, 1]] = P[[1, 0]]
        info["left_handed"] = True
    if not np.array_equal(P, np.eye(3, dtype=int)):
        a = make_supercell(a, P, wrap=False)
    info["P"] = P.tolist(); info["det"] = det
    R = cells.random_rotation(rng) if rng.random() < 0.8 else np.eye(3)
    t = rng.uniform(-5, 5, 3)
    a.set_cell(a.get_cell().array @ R.T)
    a.set_positions(a.get_positions() @ R.T + t)
    perm = rng.permutation(len(a))
    a = a[perm]
    if rng.random() < 0.5:
        a.wrap()
        info["wrapped"] = True
    else:
        sh = rng.integers(-2, 3, size=(len(a), 3))
        a.set_positions(a.get_positions() + sh @ a.get_cell().array)
        info["wrapped"] = False
    info["rotated"] = not np.array_equal(R, np.eye(3))
    a = Atoms(numbers=a.get_atomic_numbers(), positions=a.get_positions(), cell=a.get_cell().array, pbc=True)
    return a, info
