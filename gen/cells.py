"""Random cells / small atom sets for the geometry-level properties (C09, C10, C16, C20)."""
import numpy as np

PBCS = [(False, False, False), (True, False, False), (False, True, False), (False, False, True),
        (True, True, False), (True, False, True), (False, True, True), (True, True, True)]
KINDS = ["orthogonal", "triclinic", "sheared", "needle", "plate", "cubic_small"]


def random_rotation(rng):
    q = rng.normal(size=4)
    q /= np.linalg.norm(q)
    a, b, c, d = q
    return np.array([[a*a+b*b-c*c-d*d, 2*(b*c-a*d), 2*(b*d+a*c)],
                     [2*(b*c+a*d), a*a-b*b+c*c-d*d, 2*(c*d-a*b)],
                     [2*(b*d-a*c), 2*(c*d+a*b), a*a-b*b-c*c+d*d]])


def random_unimodular(rng, steps=4, maxmult=2):
    M = np.eye(3, dtype=int)
    for _ in range(steps):
        i, j = rng.choice(3, size=2, replace=False)
        k = int(rng.integers(-maxmult, maxmult + 1))
        E = np.eye(3, dtype=int)
        E[i, j] = k
        M = E @ M
    if rng.random() < 0.3:
        perm = rng.permutation(3)
        M = M[perm]
        if round(np.linalg.det(M)) < 0:
            M[0] *= -1
    return M


def random_cell(rng, kind=None, lo=2.0, hi=10.0, rotate=True, max_aspect=12.0):
    """Returns (cell 3x3, kind).  Aspect ratio (longest vector / smallest perpendicular height) <= max_aspect."""
    kind = kind or KINDS[int(rng.integers(len(KINDS)))]
    for _ in range(200):
        if kind == "orthogonal":
            cell = np.diag(rng.uniform(lo, hi, 3))
        elif kind == "cubic_small":
            cell = np.eye(3) * rng.uniform(max(0.5, lo / 4), lo + 1)
        elif kind == "triclinic":
            cell = np.diag(rng.uniform(lo, hi, 3)) + rng.uniform(-0.45, 0.45, (3, 3)) * lo
        elif kind == "sheared":
            base = np.diag(rng.uniform(lo, hi, 3)) + rng.uniform(-0.3, 0.3, (3, 3)) * lo
            cell = random_unimodular(rng, steps=int(rng.integers(1, 4)), maxmult=2) @ base
        elif kind == "needle":
            l = rng.uniform(lo, lo + 1.5, 3)
            l[int(rng.integers(3))] = rng.uniform(hi, 2.5 * hi)
            cell = np.diag(l) + rng.uniform(-0.2, 0.2, (3, 3))
        elif kind == "plate":
            l = rng.uniform(hi, 2 * hi, 3)
            l[int(rng.integers(3))] = rng.uniform(max(0.5, lo / 2), lo + 1)
            cell = np.diag(l) + rng.uniform(-0.2, 0.2, (3, 3))
        else:
            raise ValueError(kind)
        vol = abs(np.linalg.det(cell))
        if vol < 1e-3:
            continue
        lens = np.linalg.norm(cell, axis=1)
        hts = vol / np.array([np.linalg.norm(np.cross(cell[1], cell[2])),
                              np.linalg.norm(np.cross(cell[2], cell[0])),
                              np.linalg.norm(np.cross(cell[0], cell[1]))])
        if lens.max() / hts.min() > max_aspect:
            continue
        if rotate:
            cell = cell @ random_rotation(rng).T
        return cell, kind
    return np.diag(rng.uniform(lo, hi, 3)), "orthogonal"


def positions_inside(rng, cell, n, mode=None):
    """Scaled coordinates in [0,1) -> Cartesian; hostile modes put atoms on faces / coincident."""
    mode = mode or rng.choice(["uniform", "uniform", "faces", "clustered", "coincident"])
    s = rng.random((n, 3))
    if mode == "faces":
        mask = rng.random((n, 3)) < 0.4
        s[mask] = rng.choice([0.0, 0.5, 1.0 - 2**-30], size=int(mask.sum()))
    elif mode == "clustered":
        c = rng.random(3)
        s = (c + rng.normal(scale=0.08, size=(n, 3))) % 1.0
    elif mode == "coincident" and n > 1:
        s[-1] = s[0]
    s = np.clip(s, 0.0, np.nextafter(1.0, 0.0))
    return s @ cell, s, str(mode)
