"""Random cells / small atom sets for the geometry-level properties (C09, C10, C16, C20)."""
import numpy as np

PBCS = [(False, False, False), (True, False, False), (False, True, False), (False, False, True),
        (True, True, False), (True, False, True), (False, True, True), (True, True, True)]


def pbc_form(rng, pbc):
    """The same periodicity flags in one of the forms ASE and MatID accept: bool ndarray, list / tuple of Python
    bools, integer ndarray / list / tuple (0/1), or a single bool when the three flags agree.  Returns (value, name)."""
    b = [bool(x) for x in np.asarray(pbc).ravel()]
    forms = ["ndarray_bool", "ndarray_bool", "list_bool", "tuple_bool", "ndarray_int", "list_int", "tuple_int"]
    if b[0] == b[1] == b[2]:
        forms += ["scalar_bool", "scalar_bool"]
    f = forms[int(rng.integers(len(forms)))]
    if f == "ndarray_bool":
        return np.array(b), f
    if f == "list_bool":
        return list(b), f
    if f == "tuple_bool":
        return tuple(b), f
    if f == "ndarray_int":
        return np.array([int(x) for x in b]), f
    if f == "list_int":
        return [int(x) for x in b], f
    if f == "tuple_int":
        return tuple(int(x) for x in b), f
    return b[0], f


def array_form(rng, a):
    """The same float array as C-ordered (default), Fortran-ordered, read-only, nested list or a non-contiguous view.
    Returns (value, name)."""
    a = np.array(a, float)
    f = ["c", "c", "fortran", "readonly", "list", "strided"][int(rng.integers(6))]
    if f == "fortran":
        return np.asfortranarray(a), f
    if f == "readonly":
        b = a.copy(); b.setflags(write=False)
        return b, f
    if f == "list":
        return a.tolist(), f
    if f == "strided" and a.ndim == 2:
        big = np.zeros((a.shape[0], a.shape[1] * 2))
        big[:, ::2] = a
        return big[:, ::2], f
    return a, "c"


KINDS = ["orthogonal", "triclinic", "sheared", "needle", "plate", "cubic_small"]


def random_rotation(rng):
    q = rng.normal(size=4)
    q /= np.linalg.norm(q)
    a, b, c, d = q
    return np.array([[a*a+b*b-c*c-d*d, 2*(b*c-a*d), 2*(b*d+a*c)],
                     [2*(b*c+a*d), a*a-b*b+c*c-d*d, 2*(c*d-a*b)],
                     [2*(b*d-a*c), 2*(c*d+a*b), a*a-b*b-c*c+d*d]])


def random_unimodular(rng, steps=4, maxmult=2):
    M = np.eye(3, dtype=int)
    for _ in range(steps):
        i, j = rng.choice(3, size=2, replace=False)
        k = int(rng.integers(-maxmult, maxmult + 1))
        E = np.eye(3, dtype=int)
        E[i, j] = k
        M = E @ M
    if rng.random() < 0.3:
        perm = rng.permutation(3)
        M = M[perm]
        if round(np.linalg.det(M)) < 0:
            M[0] *= -1
    return M


def random_cell(rng, kind=None, lo=2.0, hi=10.0, rotate=True, max_aspect=12.0):
    """Returns (cell 3x3, kind).  Aspect ratio (longest vector / smallest perpendicular height) <= max_aspect."""
    kind = kind or KINDS[int(rng.integers(len(KINDS)))]
    for _ in range(200):
        if kind == "orthogonal":
            cell = np.diag(rng.uniform(lo, hi, 3))
        elif kind == "cubic_small":
            cell = np.eye(3) * rng.uniform(max(0.5, lo / 4), lo + 1)
        elif kind == "triclinic":
            cell = np.diag(rng.uniform(lo, hi, 3)) + rng.uniform(-0.45, 0.45, (3, 3)) * lo
        elif kind == "sheared":
            base = np.diag(rng.uniform(lo, hi, 3)) + rng.uniform(-0.3, 0.3, (3, 3)) * lo
            cell = random_unimodular(rng, steps=int(rng.integers(1, 4)), maxmult=2) @ base
        elif kind == "needle":
            l = rng.uniform(lo, lo + 1.5, 3)
            l[int(rng.integers(3))] = rng.uniform(hi, 2.5 * hi)
            cell = np.diag(l) + rng.uniform(-0.2, 0.2, (3, 3))
        elif kind == "plate":
            l = rng.uniform(hi, 2 * hi, 3)
            l[int(rng.integers(3))] = rng.uniform(max(0.5, lo / 2), lo + 1)
            cell = np.diag(l) + rng.uniform(-0.2, 0.2, (3, 3))
        else:
            raise ValueError(kind)
        vol = abs(np.linalg.det(cell))
        if vol < 1e-3:
            continue
        lens = np.linalg.norm(cell, axis=1)
        hts = vol / np.array([np.linalg.norm(np.cross(cell[1], cell[2])),
                              np.linalg.norm(np.cross(cell[2], cell[0])),
                              np.linalg.norm(np.cross(cell[0], cell[1]))])
        if lens.max() / hts.min() > max_aspect:
            continue
        if rotate:
            cell = cell @ random_rotation(rng).T
        return cell, kind
    return np.diag(rng.uniform(lo, hi, 3)), "orthogonal"


def positions_inside(rng, cell, n, mode=None):
    """Scaled coordinates in [0,1) -> Cartesian; hostile modes put atoms on faces / coincident."""
    mode = mode or rng.choice(["uniform", "uniform", "faces", "clustered", "coincident"])
    s = rng.random((n, 3))
    if mode == "faces":
        mask = rng.random((n, 3)) < 0.4
        s[mask] = rng.choice([0.0, 0.5, 1.0 - 2**-30], size=int(mask.sum()))
    elif mode == "clustered":
        c = rng.random(3)
        s = (c + rng.normal(scale=0.08, size=(n, 3))) % 1.0
    elif mode == "coincident" and n > 1:
        s[-1] = s[0]
    s = np.clip(s, 0.0, np.nextafter(1.0, 0.0))
    return s @ cell, s, str(mode)
