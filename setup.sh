#!/bin/sh
# MANIFEST.setup_cmd: offline; installs icontract beside the repo's interpreter (into /verif/.deps),
# builds both native lanes from /repo's working tree and runs the adapter fidelity self-test.
set -e
HERE="$(cd "$(dirname "$0")" && pwd)"
cd "$HERE"
export PYTHONPATH="$HERE:$HERE/.deps" PIP_NO_INDEX=1 PYTHONDONTWRITEBYTECODE=1
/venv/bin/python -c "from harness import env; print('deps:', env.ensure_deps())"
/venv/bin/python native/build.py plain san
/venv/bin/python -m native.fidelity
