"""Parser for Wyckoff coordinate expressions ('-x+1/2', '2x', 'x-y', '0.25') into exact linear forms."""
import re
from fractions import Fraction

_TERM = re.compile(r"([+-]?)\s*(\d+/\d+|\d*\.\d+|\d+)?\s*\*?\s*([xyz])?")


def parse(expr):
    """Returns (coeffs {var: Fraction}, constant Fraction).  Raises ValueError on anything it cannot read."""
    s = expr.replace(" ", "")
    if not s:
        raise ValueError("empty expression")
    pos = 0
    coeffs = {"x": Fraction(0), "y": Fraction(0), "z": Fraction(0)}
    const = Fraction(0)
    first = True
    while pos < len(s):
        m = _TERM.match(s, pos)
        if not m or m.end() == pos:
            raise ValueError("cannot parse %r at %d" % (expr, pos))
        sign, num, var = m.groups()
        if num is None and var is None:
            raise ValueError("cannot parse %r at %d" % (expr, pos))
        if not first and sign == "":
            raise ValueError("missing sign in %r at %d" % (expr, pos))
        val = Fraction(num) if num is not None else Fraction(1)
        if sign == "-":
            val = -val
        if var:
            coeffs[var] += val
        else:
            const += val
        pos = m.end()
        first = False
    return coeffs, const


def evaluate(expr3, values):
    """expr3: three expression strings; values: dict var -> float.  Returns list of three floats."""
    out = []
    for e in expr3:
        c, k = parse(e)
        out.append(float(k) + sum(float(c[v]) * float(values.get(v, 0.0)) for v in "xyz"))
    return out


def variables(expr3):
    vs = set()
    for e in expr3:
        c, _ = parse(e)
        vs |= {v for v in "xyz" if c[v] != 0}
    return vs
