"""Reference model of `dimensionality`: the rank of the periodic bonding network.

Atoms are linked when (distance between atom i and an image of atom j) - r_i - r_j <= threshold.  The quotient
graph carries integer edge offsets; a spanning forest gives every atom a potential (cell offset relative to its
root) and every non-tree edge a cycle vector in Z^3.  The number of independent lattice directions along which
the network is connected to its own images is the rank of the cycle lattice.  MatID's documented 2x-supercell
formula computes the rank over GF(2); both are returned.
"""
import itertools

import numpy as np

from . import mic as omic


def bond_edges(pos, cell, pbc, radii, threshold, band=1e-9):
    """All edges (i, j, n) with i<j (any n) or i==j (n lexicographically positive) whose radii-corrected length is
    <= threshold.  Returns (edges, borderline) where borderline=True if some candidate lies within `band` of the
    threshold (ill-conditioned input)."""
    pos = np.asarray(pos, float)
    cell = np.array(cell, float)
    pbc = np.asarray(pbc, bool)
    n = len(pos)
    P = [i for i in range(3) if pbc[i]]
    rmax = float(np.max(radii)) if n else 0.0
    reach = threshold + 2 * rmax + 1e-6
    if P:
        h = omic.heights(cell, pbc)
        # wrap along periodic axes so that |offset| <= ceil(reach/h)+1 suffices
        A = cell[P]
        B = np.linalg.pinv(A)
        frac = pos @ B
        shift = np.floor(frac)
        wpos = pos - shift @ A
        K = [int(np.ceil(reach / h[i])) + 1 if pbc[i] else 0 for i in range(3)]
    else:
        wpos = pos
        shift = np.zeros((n, 0))
        K = [0, 0, 0]
    if (2 * K[0] + 1) * (2 * K[1] + 1) * (2 * K[2] + 1) * n * n > 30_000_000:
        raise OverflowError("too many images for the brute-force bonding oracle")
    offs = np.array(list(itertools.product(*[range(-k, k + 1) for k in K])), dtype=int)
    ovec = offs @ cell
    edges = []
    borderline = False
    rr = np.asarray(radii, float)
    full_shift = np.zeros((n, 3), dtype=int)
    for k, ax in enumerate(P):
        full_shift[:, ax] = shift[:, k].astype(int)
    for o, ov in zip(offs, ovec):
        # vector from atom i to image (j, o): wpos[j] + ov - wpos[i]
        d = np.linalg.norm(wpos[None, :, :] + ov[None, None, :] - wpos[:, None, :], axis=2)
        corr = d - rr[:, None] - rr[None, :]
        if np.any(np.abs(corr - threshold) < band):
            # self pair at zero offset is not a bond candidate
            mask = np.abs(corr - threshold) < band
            if not o.any():
                np.fill_diagonal(mask, False)
            if mask.any():
                borderline = True
        ii, jj = np.nonzero(corr <= threshold)
        for i, j in zip(ii, jj):
            if i > j:
                continue
            if i == j and (not o.any() or tuple(o) < (0, 0, 0)):
                continue
            # express the offset for the *unwrapped* atoms: r_j + n.cell - r_i with r = wpos + shift.cell
            nn = o + full_shift[i] - full_shift[j]     # wpos_j + o - wpos_i = r_j - s_j + o - r_i + s_i
            edges.append((int(i), int(j), (int(nn[0]), int(nn[1]), int(nn[2]))))
    return edges, borderline


def rank_gf2(vectors):
    M = [[int(x) & 1 for x in v] for v in vectors]
    rank = 0
    ncol = 3
    rows = [r[:] for r in M]
    for c in range(ncol):
        piv = None
        for k in range(rank, len(rows)):
            if rows[k][c]:
                piv = k
                break
        if piv is None:
            continue
        rows[rank], rows[piv] = rows[piv], rows[rank]
        for k in range(len(rows)):
            if k != rank and rows[k][c]:
                rows[k] = [a ^ b for a, b in zip(rows[k], rows[rank])]
        rank += 1
    return rank


def analyse(pos, cell, pbc, radii, threshold, band=1e-9):
    """Returns dict(components=[[...]], n_components, rank_z, rank_gf2, borderline)."""
    n = len(pos)
    edges, borderline = bond_edges(pos, cell, pbc, radii, threshold, band=band)
    parent = list(range(n))
    pot = [np.zeros(3, dtype=int) for _ in range(n)]   # cell offset of an atom relative to its parent

    def rel(i):
        """(root, cell offset of i relative to its root)"""
        acc = np.zeros(3, dtype=int)
        while parent[i] != i:
            acc = acc + pot[i]
            i = parent[i]
        return i, acc

    cycles = []
    for (i, j, nvec) in edges:
        nv = np.array(nvec, dtype=int)
        ri, pi = rel(i)
        rj, pj = rel(j)
        if ri != rj:
            parent[rj] = ri
            pot[rj] = pi + nv - pj
        else:
            c = pi + nv - pj
            if c.any():
                cycles.append(c)
    roots = {}
    for i in range(n):
        roots.setdefault(rel(i)[0], []).append(i)
    comps = sorted(roots.values())
    if cycles:
        C = np.array(cycles, dtype=float)
        rz = int(np.linalg.matrix_rank(C))
        r2 = rank_gf2(cycles)
    else:
        rz = r2 = 0
    return {"components": comps, "n_components": len(comps), "rank_z": rz, "rank_gf2": r2,
            "borderline": borderline, "n_edges": len(edges)}


def expected_dimensionality(pos, cell, pbc, radii, threshold, band=1e-9):
    a = analyse(pos, cell, pbc, radii, threshold, band=band)
    if a["n_components"] > 1:
        return None, a
    if not np.any(pbc):
        return 0, a
    return a["rank_z"], a
