"""Minimum-image oracle, independent of MatID: brute-force lattice sums with a proven search radius,
cross-checked against ASE's Minkowski-reduced find_mic."""
import itertools

import numpy as np


def _periodic_frame(cell, pbc):
    cell = np.asarray(cell, float)
    pbc = np.asarray(pbc, bool)
    P = [i for i in range(3) if pbc[i]]
    A = cell[P]                         # p x 3 periodic lattice vectors
    return P, A


def mic_vectors(diffs, cell, pbc, max_grid=4_000_000):
    """diffs: (m,3) raw difference vectors.  Returns (vmin (m,3), dmin (m,), nmin (m,3) integer offsets with
    vmin = diff - nmin @ cell).  Exact minimum over all lattice translations along periodic axes.
    Search radius: with B = |diff - round(frac) A| an upper bound of the minimum, any better image v has
    |v_par| <= B, hence its coefficient along a_i differs from frac_i by at most B * |b_i| (b_i dual basis).
    """
    diffs = np.atleast_2d(np.asarray(diffs, float))
    m = diffs.shape[0]
    P, A = _periodic_frame(cell, pbc)
    nmin = np.zeros((m, 3))
    if len(P) == 0 or m == 0:
        return diffs.copy(), np.linalg.norm(diffs, axis=1), nmin
    if np.linalg.matrix_rank(A) < len(P):
        raise ValueError("periodic lattice vectors are linearly dependent")
    Bdual = np.linalg.pinv(A)           # 3 x p ; columns b_i, a_j . b_i = delta_ij
    frac = diffs @ Bdual                # m x p
    n0 = np.round(frac)
    v0 = diffs - n0 @ A
    # in-plane part only matters for the bound
    par0 = (v0 @ Bdual) @ A
    Bnd = np.linalg.norm(par0, axis=1)  # m
    bnorm = np.linalg.norm(Bdual, axis=0)   # p
    K = np.ceil(Bnd.max() * bnorm + 0.5).astype(int) + 1
    if (K > 60).any():
        raise OverflowError('brute-force MIC search radius too large: %s' % K)
    ranges = [np.arange(-k, k + 1) for k in K]
    grid = np.array(list(itertools.product(*ranges)), dtype=float)      # g x p
    gvec = grid @ A                                                      # g x 3
    best_d = np.full(m, np.inf)
    best_v = np.zeros((m, 3))
    best_n = np.zeros((m, len(P)))
    chunk = max(1, max_grid // max(1, len(grid)))
    for s in range(0, m, chunk):
        e = min(m, s + chunk)
        cand = v0[s:e, None, :] - gvec[None, :, :]                      # (c, g, 3)
        d = np.linalg.norm(cand, axis=2)
        j = np.argmin(d, axis=1)
        rows = np.arange(e - s)
        best_d[s:e] = d[rows, j]
        best_v[s:e] = cand[rows, j]
        best_n[s:e] = n0[s:e] + grid[j]
    for k, i in enumerate(P):
        nmin[:, i] = best_n[:, k]
    return best_v, best_d, nmin


def mic_matrix(pos, cell, pbc):
    """Full (n,n) matrix of true minimum-image distances (brute force)."""
    pos = np.asarray(pos, float)
    n = len(pos)
    iu = np.triu_indices(n, 1)
    D = np.zeros((n, n))
    if len(iu[0]):
        diffs = pos[iu[0]] - pos[iu[1]]
        _, d, _ = mic_vectors(diffs, cell, pbc)
        D[iu] = d
        D.T[iu] = d
    return D


def mic_matrix_ase(pos, cell, pbc):
    """Same quantity through ASE (Minkowski reduction) - the second, independent oracle."""
    from ase.geometry import find_mic
    pos = np.asarray(pos, float)
    n = len(pos)
    iu = np.triu_indices(n, 1)
    D = np.zeros((n, n))
    if len(iu[0]):
        diffs = pos[iu[0]] - pos[iu[1]]
        cell2 = np.array(cell, float)
        _, d = find_mic(diffs, cell2, pbc=np.asarray(pbc, bool))
        D[iu] = d
        D.T[iu] = d
    return D


def heights(cell, pbc):
    """Perpendicular heights of the periodic sub-lattice along each periodic axis (inf for non-periodic)."""
    P, A = _periodic_frame(cell, pbc)
    h = np.full(3, np.inf)
    if P:
        Bdual = np.linalg.pinv(A)
        for k, i in enumerate(P):
            h[i] = 1.0 / np.linalg.norm(Bdual[:, k])
    return h
