"""Proper-congruence checker: given one lattice and two decorated point sets (fractional coordinates in that
lattice), find the isometries x -> W x + t (W in the lattice point group, t arbitrary) that map set A onto set B
modulo lattice translations, and report the set of their determinants.  "+1 in the result" <=> B is A up to a
proper rigid motion and lattice translations; "{-1}" <=> B is the mirror image of A (and A is chiral)."""
import numpy as np
import spglib


def lattice_point_group(lattice, symprec=1e-5):
    sym = spglib.get_symmetry((np.array(lattice, float), [[0.0, 0.0, 0.0]], [1]), symprec=symprec)
    rots = sym["rotations"] if isinstance(sym, dict) else sym.rotations
    uniq = {}
    for W in rots:
        uniq[tuple(np.array(W).ravel().tolist())] = np.array(W, int)
    return list(uniq.values())


def _match(lattice, zA, fA, zB, fB, tol):
    """all atoms of A' = fA have a partner of the same species in B within tol (Cartesian, mod lattice), bijectively"""
    used = np.zeros(len(fB), bool)
    for z, x in zip(zA, fA):
        cand = np.nonzero((zB == z) & ~used)[0]
        if len(cand) == 0:
            return False
        d = fB[cand] - x
        d -= np.round(d)
        dist = np.linalg.norm(d @ lattice, axis=1)
        k = int(np.argmin(dist))
        if dist[k] > tol:
            return False
        used[cand[k]] = True
    return True


def congruence_dets(lattice, zA, fA, zB, fB, tol=1e-3, lattice_symprec=1e-4):
    lattice = np.array(lattice, float)
    zA = np.asarray(zA); zB = np.asarray(zB)
    fA = np.asarray(fA, float); fB = np.asarray(fB, float)
    if len(zA) != len(zB) or sorted(zA.tolist()) != sorted(zB.tolist()):
        return set(), 0
    # rarest species as anchor
    vals, counts = np.unique(zA, return_counts=True)
    zr = vals[int(np.argmin(counts))]
    a0 = int(np.nonzero(zA == zr)[0][0])
    cand_b = np.nonzero(zB == zr)[0]
    dets = set()
    tried = 0
    for W in lattice_point_group(lattice, lattice_symprec):
        det = int(round(np.linalg.det(W)))
        if det in dets:
            continue
        WA = fA @ W.T
        for b in cand_b:
            tried += 1
            t = fB[b] - WA[a0]
            if _match(lattice, zA, WA + t, zB, fB, tol):
                dets.add(det)
                break
        if dets == {1, -1}:
            break
    return dets, tried
