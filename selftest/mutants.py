"""Realistic single-site (or two-site) changes used to validate that the monitors fire.  Each mutant is a list
of exact string replacements applied to a scratch copy of the repository (never to /repo)."""

M = []


def mut(prop, name, *edits, tier="quick", note=""):
    M.append({"property": prop, "name": name, "edits": [{"file": f, "old": o, "new": n} for f, o, n in edits], "tier": tier, "note": note})


GEO_CPP = "matid/ext/geometry.cpp"
CL_CPP = "matid/ext/celllist.cpp"
GEO = "matid/geometry/geometry.py"
SA = "matid/symmetry/symmetryanalyzer.py"
SBC = "matid/clustering/sbc.py"
CLU = "matid/clustering/cluster.py"
CLF = "matid/classification/classifier.py"
DATA = "matid/data/symmetry_data.py"

# ---- native layer (rebuilt from the scratch sources by the plain / san lanes)
mut("C10", "copies_floor", (GEO_CPP, "                double factor = cutoff/length;\n                int multiplier = (int)ceil(factor);",
                             "                double factor = cutoff/length;\n                int multiplier = (int)floor(factor);"))
mut("C16", "copies_floor", (GEO_CPP, "                double factor = cutoff/length;\n                int multiplier = (int)ceil(factor);",
                             "                double factor = cutoff/length;\n                int multiplier = (int)floor(factor);"))
mut("C10", "keep_farthest_image", (CL_CPP, "distance < get<0>(min_map[j])", "distance > get<0>(min_map[j])"))
mut("C10", "inf_cutoff_half_extension", (GEO_CPP, "        extension = max_length;", "        extension = 0.5*max_length;"))
mut("C10", "factor_sign", (CL_CPP, "factors_mu(it.first, i, k) = -factor[k];", "factors_mu(it.first, i, k) = factor[k];"))
mut("C16", "query_skips_upper_bin", (CL_CPP, "    int iend = min(i0+1, this->nx-1);\n    int jstart = max(j0-1, 0);\n    int jend = min(j0+1, this->ny-1);\n    int kstart = max(k0-1, 0);\n    int kend = min(k0+1, this->nz-1);\n\n    // Loop over neighbouring bins\n    for (int i = istart; i <= iend; i++) {",
                                      "    int iend = min(i0, this->nx-1);\n    int jstart = max(j0-1, 0);\n    int jend = min(j0+1, this->ny-1);\n    int kstart = max(k0-1, 0);\n    int kend = min(k0+1, this->nz-1);\n\n    // Loop over neighbouring bins\n    for (int i = istart; i <= iend; i++) {"))
mut("C16", "drops_farthest_negative_copy", (GEO_CPP, "        for (int j=-multiplier; j < 0; ++j) {", "        for (int j=-multiplier+1; j < 0; ++j) {"))
mut("C16", "bin_size_below_cutoff", (CL_CPP, "    this->dx = max(this->cutoff, (this->xmax - this->xmin)/this->nx);", "    this->dx = (this->xmax - this->xmin)/this->nx;"),
    note="bins may become smaller than the cutoff: the 27-bin search is incomplete")
mut("C16", "no_padding_out_of_bounds", (CL_CPP, "    double padding = 0.0001;", "    double padding = 0.0;"), tier="quick",
    note="maximal coordinate lands in bin index nx: heap overflow, seen by ASan lane / bin invariants")
mut("C16", "match_tolerance_strict", (GEO, "            if closest_distance <= tolerance:\n                closest_atomic_number = atomic_numbers[closest_index]\n                copy_index = closest_factor",
                                       "            if closest_distance <= 0.9 * tolerance:\n                closest_atomic_number = atomic_numbers[closest_index]\n                copy_index = closest_factor"))
mut("C16", "substitution_wrong_species", (GEO, "                        atomic_number,\n                        closest_atomic_number,\n                    )",
                                           "                        closest_atomic_number,\n                        atomic_number,\n                    )"))
# ---- C09
mut("C09", "cutoff_one_radius", (GEO, "    cutoff = cluster_threshold + 2 * max_radii", "    cutoff = cluster_threshold + max_radii"))
mut("C09", "no_wrap", (GEO, "        system_1x = system.copy()\n        system_1x.wrap()", "        system_1x = system.copy()"))
# ---- C01
mut("C01", "no_input_copy", (SBC, "        system_copy = system.copy()", "        system_copy = system"))
mut("C01", "localize_keeps_shared_atoms", (SBC, "                    if cluster != max_cluster:\n                        ind_set.remove(i)", "                    if cluster != max_cluster and len(i_clusters) > 2:\n                        ind_set.remove(i)"))
mut("C01", "global_rng", (SBC, "            i_seed = self.rng.choice(list(indices), 1)[0]", "            i_seed = np.random.choice(list(indices), 1)[0]"))
mut("C01", "merge_ignores_species", (SBC, "                filter(lambda x: atomic_numbers[x] in target.species, source.indices)", "                filter(lambda x: True, source.indices)"))
# ---- C13
mut("C13", "stale_cache", (CLU, "            or self._distance_matrix_indices != list(self.indices)\n", "            or False\n"))
mut("C13", "radii_not_forwarded", (CLU, "                radii=radii,\n            )", "            )"))
# ---- C17
mut("C17", "no_input_copy", (CLF, "        system = input_system.copy()", "        system = input_system"))
mut("C17", "single_atom_is_0d", (CLF, "            if n_atoms == 1:\n                classification = Atom(input_system)", "            if n_atoms == 0:\n                classification = Atom(input_system)"))
# ---- symmetry family
mut("C07", "transformation_not_transposed", (SA, "            transformed_positions = np.dot(old_pos, best_transformation_matrix.T)", "            transformed_positions = np.dot(old_pos, best_transformation_matrix)"))
mut("C06", "letters_unsorted", (SA, "        wyckoff_letters = sorted(wyckoff_letters)\n", "        wyckoff_letters = list(wyckoff_letters)\n"),
    note="iteration order of a set of str depends on PYTHONHASHSEED")
mut("C06", "id_counts_original_cell", (SA, "            n_atoms = len(group.indices)\n            i_string", "            n_atoms = len(group.indices) * len(self._original_system) // len(self.get_conventional_system())\n            i_string"))
mut("C07", "equivalent_atoms_of_input_cell", (SA, "        value = dataset.crystallographic_orbits\n", "        value = dataset.equivalent_atoms\n"))
mut("C07", "letters_not_permuted", (SA, "                new_w = best_permutations.get(old_w)\n                new_wyckoff_letters.append(new_w)", "                new_w = best_permutations.get(old_w)\n                new_wyckoff_letters.append(old_w)"))
mut("C08", "parameter_from_wrong_component", (SA, "                                    W[idx] = R[icomp] - C[icomp]", "                                    W[idx] = R[idx] - C[idx]"))
mut("C08", "flag_uses_any_letter", (SA, "            if len(variables) != 0:\n                return True\n        return False", "            if len(variables) != 0:\n                return len(wyckoff_letters) > 1\n        return False"))
mut("C15", "exact_float_determinant", (SA, "            if determinant < 0:", "            if determinant == -1.0:"),
    (SA, "        operations = spglib.get_symmetry_from_database(self.get_hall_number())\n        rotations = operations[\"rotations\"]\n        chiral = True",
     "        operations = self.get_symmetry_operations()\n        rotations = operations[\"rotations\"]\n        chiral = True"))
mut("C11", "no_2d_prefix", (SA, "        if self.n_pbc == 2:\n            string = f\"2D {string}\"", "        if self.n_pbc == 2:\n            string = f\"{string}\""))
mut("C11", "no_axis_swap", (SA, "            if non_periodic_dim != swap_dim:", "            if False:"))
mut("C14", "pointgroup_typo", (DATA, "    221: {\"bravais_lattice\": \"cP\", \"crystal_system\": \"cubic\", \"pointgroup\": \"m-3m\"},", "    221: {\"bravais_lattice\": \"cP\", \"crystal_system\": \"cubic\", \"pointgroup\": \"m-3\"},"))
# ---- C19 / C20
mut("C19", "nan_comparison", (GEO, "vdw_radii[i] if not np.isnan(vdw_radii[i]) else covalent_radii[i]", "vdw_radii[i] if vdw_radii[i] != np.nan else covalent_radii[i]"))
mut("C19", "vdw_is_covalent", (GEO, "        elif radii == \"vdw\":\n            radii = vdw_radii", "        elif radii == \"vdw\":\n            radii = covalent_radii"))
mut("C20", "minimized_not_centred", (GEO, "        new_scaled_pos -= offset_rel", "        new_scaled_pos -= 0 * offset_rel"))
mut("C20", "swap_basis_forgets_pbc", (GEO, "    pbc_new[a] = pbc_old[b]\n    pbc_new[b] = pbc_old[a]", "    pbc_new[a] = pbc_old[a]\n    pbc_new[b] = pbc_old[b]"))
mut("C20", "com_unweighted_angle", (GEO, "            xi = np.cos(theta) * masses\n            zeta = np.sin(theta) * masses", "            xi = np.cos(theta) * masses\n            zeta = np.sin(theta)"))
mut("C20", "to_scaled_wrap_all_axes", (GEO, "    if wrap:\n        for i, periodic in enumerate(pbc):\n            if periodic:\n                fractional[:, i] %= 1.0", "    if wrap:\n        for i, periodic in enumerate(pbc):\n            if True:\n                fractional[:, i] %= 1.0"))

# ---- replacements for mutants that turned out to be equivalent / not violations of their property (see DESIGN.md section 8)
mut("C12", "a_centring_uses_c_matrix", (SA, "                    [1, 0, 0],\n                    [0, 1 / 2, -1 / 2],\n                    [0, 1 / 2, 1 / 2],", "                    [1 / 2, 1 / 2, 0],\n                    [-1 / 2, 1 / 2, 0],\n                    [0, 0, 1],"))
mut("C12", "r_centring_wrong_sign", (SA, "                    [2 / 3, -1 / 3, -1 / 3],", "                    [2 / 3, 1 / 3, -1 / 3],"))
mut("C11", "insufficient_vacuum", (SA, "            thickness = max(\n                5, 3 * matid.geometry.get_thickness(symmetry_broken_system, i_pbc)\n            )",
                                    "            thickness = max(\n                1, 1.0 * matid.geometry.get_thickness(symmetry_broken_system, i_pbc)\n            )"))
mut("C11", "centres_along_input_axis", (SA, "            translation[conv_pbc] = 0", "            translation[pbc] = 0"))
mut("C02", "scale_cell_columns", (SBC, "                        new_cell[i, :] *= (max_pos - min_pos) + 1", "                        new_cell[:, i] *= (max_pos - min_pos) + 1"))
mut("C03", "species_not_checked_in_matches", (GEO, "                if closest_atomic_number == atomic_number:\n                    match = closest_index\n                    substitution = None", "                if True:\n                    match = closest_index\n                    substitution = None"))
mut("C04", "proto_cell_basis_displaced", ("matid/core/periodicfinder.py", "                group_avg = np.mean(final_pos, axis=0)\n                averaged_rel_pos.append(group_avg)\n                averaged_rel_num.append(group_num)\n\n            if i_group == seed_group_index:\n                new_group_index = len(averaged_rel_num) - 1\n        seed_group_index = new_group_index\n\n        # If no atoms are found in the proto cell, return without results\n        if not averaged_rel_pos or not averaged_rel_num:\n            return None, None, None\n\n        averaged_rel_pos = np.array(averaged_rel_pos)\n\n        proto_cell = Atoms(\n            scaled_positions=averaged_rel_pos,\n            symbols=averaged_rel_num,\n            cell=best_spans,\n            pbc=[True, True, True],",
     "                group_avg = np.mean(final_pos, axis=0) + 0.03 * i_group\n                averaged_rel_pos.append(group_avg)\n                averaged_rel_num.append(group_num)\n\n            if i_group == seed_group_index:\n                new_group_index = len(averaged_rel_num) - 1\n        seed_group_index = new_group_index\n\n        # If no atoms are found in the proto cell, return without results\n        if not averaged_rel_pos or not averaged_rel_num:\n            return None, None, None\n\n        averaged_rel_pos = np.array(averaged_rel_pos)\n\n        proto_cell = Atoms(\n            scaled_positions=averaged_rel_pos,\n            symbols=averaged_rel_num,\n            cell=best_spans,\n            pbc=[True, True, True],"),
    note="atoms of the 2nd, 3rd ... basis group are displaced: breaks the symmetry of multi-atom bases only")
mut("C18", "distances_before_wrap", (CLF, "        cell = system.get_cell()\n        distances = matid.geometry.get_distances(system)", "        cell = system.get_cell()\n        distances = matid.geometry.get_distances(input_system)"))
mut("C05", "reset_keeps_conventional_system", (SA, "        self._symmetry_dataset = None\n\n        self._conventional_system = None\n", "        self._symmetry_dataset = None\n\n        if not hasattr(self, '_conventional_system'):\n            self._conventional_system = None\n"),
    note="history: the cache is initialised once but not cleared by reset(); only visible when one analyzer object is reused through set_system()")
mut("C12", "reset_keeps_best_transform", (SA, "        self._best_transform = None\n\n    def get_material_id", "        if not hasattr(self, '_best_transform'):\n            self._best_transform = None\n\n    def get_material_id"),
    note="history: stale letter permutation of the previously analysed crystal; only visible when get_wyckoff_letters_original() is the first getter called after set_system()")
mut("C05", "reset_keeps_symmetry_dataset", (SA, "        \"\"\"Used to reset all the cached values.\"\"\"\n        self._symmetry_dataset = None\n", "        \"\"\"Used to reset all the cached values.\"\"\"\n        if not hasattr(self, '_symmetry_dataset'):\n            self._symmetry_dataset = None\n"),
    note="history: stale spglib dataset of the previously analysed crystal")
