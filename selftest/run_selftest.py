#!/venv/bin/python
"""Mutant self-test: every realistic change in selftest/mutants.py and every seeded change under /verif/seeded/<id>/
is applied to a scratch copy of /repo (outside /repo and /verif), the property's check is run with
VERIF_REPO=<scratch>, and the run must end with exit 1 and a VIOLATION line.  The scratch copy and its native build
are removed afterwards.

usage: run_selftest.py [--only C10,C16] [--name substr] [--seeded] [--jobs N] [--tier quick]
"""
import argparse
import glob
import json
import os
import shutil
import subprocess
import sys
import tempfile
import time

HERE = os.path.dirname(os.path.abspath(__file__))
VERIF = os.path.dirname(HERE)
sys.path.insert(0, VERIF)


def scratch_copy():
    d = tempfile.mkdtemp(prefix="matid_mut_", dir="/tmp")
    subprocess.run(["rsync", "-a", "--exclude", ".git", "--exclude", "docs", "--exclude", "build", "--exclude", "reports",
                    "--exclude", "__pycache__", "/repo/", d + "/"], check=True)
    return d


def apply_edits(d, edits):
    for e in edits:
        p = os.path.join(d, e["file"])
        s = open(p).read()
        if s.count(e["old"]) != 1:
            return "edit does not apply uniquely in %s (%d matches)" % (e["file"], s.count(e["old"]))
        open(p, "w").write(s.replace(e["old"], e["new"]))
    return None


def run_check(prop, tier, repo, jobs=None, seed=None):
    env = dict(os.environ, VERIF_REPO=repo)
    if jobs:
        env["VERIF_JOBS"] = str(jobs)
    if seed is not None:
        env["VERIF_SEED"] = str(seed)
    t = time.time()
    r = subprocess.run([os.path.join(VERIF, "check"), prop, tier], capture_output=True, text=True, env=env, cwd=VERIF)
    keys = [l.strip() for l in r.stdout.splitlines() if l.strip().startswith("key=")]
    viol = [l for l in r.stdout.splitlines() if l.startswith("VIOLATION")]
    return r.returncode, viol, keys, time.time() - t, r.stdout[-1500:]


def main():
    ap = argparse.ArgumentParser()
    ap.add_argument("--only", default="")
    ap.add_argument("--name", default="")
    ap.add_argument("--seeded", action="store_true", help="run the seeded changes under /verif/seeded instead of mutants.py")
    ap.add_argument("--jobs", type=int, default=0)
    ap.add_argument("--tier", default=None)
    ap.add_argument("--out", default=os.path.join(HERE, "last_selftest.json"))
    a = ap.parse_args()
    only = set(x for x in a.only.split(",") if x)
    items = []
    if a.seeded:
        for meta in sorted(glob.glob(os.path.join(VERIF, "seeded", "*", "meta.json"))):
            m = json.load(open(meta))
            items.append({"property": m["property"], "name": os.path.basename(os.path.dirname(meta)), "patch": os.path.join(os.path.dirname(meta), "patch.diff"),
                          "tier": m.get("tier", "quick"), "checks": m.get("detected_by") or [m["property"]]})
    else:
        from selftest import mutants
        items = [dict(m, checks=[m["property"]]) for m in mutants.M]
    results = []
    for it in items:
        if only and it["property"] not in only:
            continue
        if a.name and a.name not in it["name"]:
            continue
        d = scratch_copy()
        try:
            if "patch" in it:
                r = subprocess.run(["patch", "-p1", "-s", "-d", d, "-i", it["patch"]], capture_output=True, text=True)
                err = None if r.returncode == 0 else "patch failed: " + r.stdout + r.stderr
            else:
                err = apply_edits(d, it["edits"])
            if err:
                print("%-4s %-34s NOT-APPLIED %s" % (it["property"], it["name"], err))
                results.append({"property": it["property"], "name": it["name"], "status": "not-applied", "detail": err})
                continue
            for prop in it["checks"]:
                tier = a.tier or it.get("tier", "quick")
                rc, viol, keys, wall, tail = run_check(prop, tier, d, a.jobs or None)
                status = "CAUGHT" if rc == 1 and viol else ("MISSED" if rc == 0 else "INCONCLUSIVE(rc=%d)" % rc)
                print("%-4s %-34s %-12s by %s %s in %.0fs  %s" % (it["property"], it["name"], status, prop, tier, wall, "; ".join(k[:90] for k in keys[:2])))
                sys.stdout.flush()
                results.append({"property": it["property"], "name": it["name"], "check": prop, "tier": tier, "status": status, "keys": keys[:6], "wall_s": round(wall, 1)})
        finally:
            shutil.rmtree(d, ignore_errors=True)
    json.dump(results, open(a.out, "w"), indent=1)
    missed = [r for r in results if r["status"] != "CAUGHT"]
    print("%d/%d caught" % (len(results) - len(missed), len(results)))
    return 0 if not missed else 1


if __name__ == "__main__":
    sys.exit(main())
