"""Monitors for the pipelines: SBC.get_clusters (C01), Cluster.get_dimensionality (C13), Classifier.classify
(C17), plus stage recorders that log what merge / localize / clean actually did."""
import numpy as np

from monitors import core
from oracles import mic as omic


def describe(atoms):
    return {"numbers": [int(z) for z in atoms.get_atomic_numbers()],
            "positions_hex": [float(x).hex() for x in atoms.get_positions().ravel()],
            "cell_hex": [float(x).hex() for x in atoms.get_cell().array.ravel()],
            "pbc": [bool(b) for b in atoms.get_pbc()],
            "decorations": {"constraints": repr(atoms.constraints)[:300],
                            "extra_arrays": sorted(k for k in atoms.arrays if k not in ("numbers", "positions")),
                            "info_keys": sorted(map(str, atoms.info))}}


def fingerprint(atoms):
    """bit-exact snapshot of everything a caller can observe on an Atoms object"""
    arrays = {k: (v.dtype.str, v.shape, v.tobytes()) for k, v in atoms.arrays.items()}
    return {"arrays": arrays, "cell": atoms.get_cell().array.tobytes(), "pbc": atoms.get_pbc().tobytes(),
            "info": repr(sorted(atoms.info.items())), "n": len(atoms), "constraints": repr(atoms.constraints),
            "calc": id(atoms.calc)}


def fingerprint_diff(a, b):
    out = []
    for k in ("cell", "pbc", "info", "n", "constraints", "calc"):
        if a[k] != b[k]:
            out.append(k)
    if set(a["arrays"]) != set(b["arrays"]):
        out.append("array-names")
    else:
        for k in a["arrays"]:
            if a["arrays"][k] != b["arrays"][k]:
                out.append("arrays." + k)
    return out


def resolve_radii(radii, numbers):
    from ase.data import covalent_radii
    from ase.data.vdw_alvarez import vdw_radii
    numbers = np.asarray(numbers)
    if isinstance(radii, str):
        c = np.asarray(covalent_radii)[numbers]
        if radii == "covalent":
            return c
        v = np.asarray(vdw_radii)[numbers]
        if radii == "vdw":
            return v
        if radii == "vdw_covalent":
            return np.where(np.isnan(v), c, v)
        return None
    return np.asarray(radii, float)


def bonded_components(pos, cell, pbc, radii, threshold, members):
    """Connected components of `members` under (MIC distance - r_i - r_j <= threshold), computed with the
    brute-force minimum-image oracle on the caller's structure."""
    members = list(members)
    m = len(members)
    parent = list(range(m))

    def find(i):
        while parent[i] != i:
            parent[i] = parent[parent[i]]
            i = parent[i]
        return i
    if m > 1:
        iu = np.triu_indices(m, 1)
        P = np.asarray(pos)[members]
        diffs = P[iu[0]] - P[iu[1]]
        _, d, _ = omic.mic_vectors(diffs, cell, pbc)
        rr = np.asarray(radii)[members]
        corr = d - rr[iu[0]] - rr[iu[1]]
        for a, b in zip(iu[0][corr <= threshold], iu[1][corr <= threshold]):
            ra, rb = find(a), find(b)
            if ra != rb:
                parent[ra] = rb
    comps = {}
    for i in range(m):
        comps.setdefault(find(i), []).append(members[i])
    return list(comps.values())


def zero_periodic_vector(atoms):
    cell = atoms.get_cell().array
    pbc = atoms.get_pbc()
    return any(pbc[i] and not cell[i].any() for i in range(3))


# ------------------------------------------------------------------------------------------------ C01
def check_clusters(rec, name, system, before, after, params, clusters, exc):
    rec.call(name)
    n = len(system)
    bad_cell = zero_periodic_vector(system)
    wit = {"input": describe(system), "params": {k: (v if not isinstance(v, np.ndarray) else v.tolist()) for k, v in params.items()}}
    rec.judged(name)
    diff = fingerprint_diff(before, after)
    if diff:
        rec.violation(name, "C01|input-mutated|%s" % "+".join(sorted(diff)), "get_clusters changed the caller's structure: %s" % diff, wit)
    if exc is not None:
        if isinstance(exc, ValueError) and bad_cell:
            rec.note("C01_expected_ValueError")
            return
        rec.violation(name, "C01|exception|%s" % type(exc).__name__, "get_clusters raised %r (zero vector along a periodic axis: %s)" % (exc, bad_cell), wit)
        return
    if bad_cell:
        rec.violation(name, "C01|missing-ValueError", "zero-length cell vector along a periodic direction but get_clusters returned normally", wit)
        return
    if not isinstance(clusters, list):
        rec.violation(name, "C01|not-a-list", "get_clusters returned %s" % type(clusters).__name__, wit); return
    numbers = system.get_atomic_numbers()
    radii = resolve_radii(params.get("radii", "covalent"), numbers)
    thr = params.get("bond_threshold", 0.65)
    seen = {}
    for k, c in enumerate(clusters):
        idx = list(c.indices)
        cw = dict(wit, cluster=k, indices=[int(i) for i in idx][:400])
        if len(idx) == 0:
            rec.violation(name, "C01|empty-cluster", "cluster %d has no atoms" % k, cw); continue
        if any((not isinstance(i, (int, np.integer))) or i < 0 or i >= n for i in idx):
            rec.violation(name, "C01|index-range", "cluster %d has an index outside [0, %d) or a non-integer index" % (k, n), cw); continue
        if len(set(idx)) != len(idx):
            rec.violation(name, "C01|duplicate-index", "cluster %d lists an atom twice" % k, cw)
        for i in set(idx):
            if i in seen:
                rec.violation(name, "C01|overlap", "atom %d belongs to clusters %d and %d" % (i, seen[i], k), cw); break
        for i in set(idx):
            seen.setdefault(i, k)
        sp = set(int(z) for z in c.species) if c.species is not None else set()
        member_z = set(int(numbers[i]) for i in idx)
        if not member_z <= sp:
            rec.violation(name, "C01|species", "cluster %d contains atomic numbers %s not listed in its species %s" % (k, sorted(member_z - sp), sorted(sp)), cw)
        try:
            cell = c.get_cell()
            npbc = int(np.sum(cell.get_pbc())) if cell is not None else None
        except Exception as e:
            cell, npbc = None, "exception:%s" % type(e).__name__
        if cell is None or npbc not in (2, 3):
            rec.violation(name, "C01|prototype-cell", "cluster %d exposes a prototype cell with %r periodic directions" % (k, npbc), cw)
        if radii is not None and np.all(np.isfinite(radii)):
            try:
                comps = bonded_components(system.get_positions(), system.get_cell().array, system.get_pbc(), radii, thr + 1e-9, sorted(set(idx)))
            except (OverflowError, ValueError):
                rec.note("C01_connectivity_oracle_unavailable"); comps = None
            if comps is not None:
                rec.call(name + ":connectivity"); rec.judged(name + ":connectivity")
                if len(comps) != 1:
                    sizes = sorted((len(x) for x in comps), reverse=True)
                    rec.violation(name, "C01|disconnected-cluster", "cluster %d (%d atoms) splits into %d bonded components of sizes %s under the bonding criterion"
                                  % (k, len(idx), len(comps), sizes[:8]), cw)


def cluster_signature(clusters):
    sig = []
    for c in clusters:
        cell = c.get_cell()
        sig.append((sorted(int(i) for i in c.indices), sorted(int(s) for s in c.species),
                    None if cell is None else [cell.get_atomic_numbers().tolist(), np.round(cell.get_positions(), 8).tolist(),
                                               np.round(cell.get_cell().array, 8).tolist(), cell.get_pbc().tolist()]))
    return sig


# ------------------------------------------------------------------------------------------------ C13
def check_cluster_dimensionality(rec, name, system, params, clusters, cleaned_info=None):
    import matid.geometry
    numbers = system.get_atomic_numbers()
    radii_arr = resolve_radii(params.get("radii", "covalent"), numbers)
    thr = params.get("bond_threshold", 0.65)
    for k, c in enumerate(clusters):
        rec.call(name)
        idx = list(c.indices)
        if not idx or radii_arr is None or not np.all(np.isfinite(radii_arr)):
            rec.ood(name); continue
        wit = {"input": describe(system), "params": {kk: (v if not isinstance(v, np.ndarray) else v.tolist()) for kk, v in params.items()},
               "cluster": k, "indices": [int(i) for i in idx][:400]}
        with core.suspend():
            try:
                d1 = c.get_dimensionality()
                d2 = c.get_dimensionality()
            except Exception as e:
                rec.judged(name)
                rec.violation(name, "C13|exception|%s" % type(e).__name__, "Cluster.get_dimensionality raised %r" % (e,), wit); continue
            try:
                # the cluster's atoms are taken from the analysed structure by index, NOT through Cluster.get_atoms():
                # a reference that shares the cluster's own atom/radius ordering cannot see a mismatch between them
                ref = matid.geometry.get_dimensionality(system[idx], thr, radii=radii_arr[idx])
            except Exception as e:
                rec.ood(name); rec.note("C13_reference_raised:%s" % type(e).__name__); continue
        # ill-conditioned clusters (some pair within 1e-9 of the bond threshold) are out of domain, as in C09: there two
        # physically identical descriptions of the same atoms (wrapped once / twice) get different answers from the
        # unchanged library, so no reference value exists (DESIGN section 11)
        try:
            from oracles import periodic_rank as prank
            _, borderline = prank.bond_edges(system.get_positions()[idx], system.get_cell().array, np.array(system.get_pbc(), bool),
                                             radii_arr[idx], float(thr))
        except Exception:
            borderline = False
        if borderline:
            rec.ood(name); rec.note("C13_ill_conditioned_threshold"); continue
        rec.judged(name)
        if idx != sorted(idx):
            rec.note("C13_clusters_with_unsorted_index_list")
            if len(set(int(z) for z in numbers[idx])) > 1:
                rec.note("C13_clusters_with_unsorted_index_list_and_several_species")
        changed = bool(cleaned_info and cleaned_info.get(id(c)))
        if changed:
            rec.note("C13_clusters_with_atoms_removed_after_tracking")
        if d1 != d2:
            rec.violation(name, "C13|not-repeatable", "two calls returned %r and %r" % (d1, d2), wit)
        if d1 != ref:
            preset = params.get("radii", "covalent")
            kind = "custom" if not isinstance(preset, str) else preset
            rec.violation(name, "C13|shortcut-differs|radii=%s|%s" % (kind, "atoms-removed" if changed else "as-tracked"),
                          "Cluster.get_dimensionality() = %r, get_dimensionality(cluster atoms, bond_threshold, radii) = %r" % (d1, ref),
                          dict(wit, shortcut=d1, direct=ref))


# ------------------------------------------------------------------------------------------------ stage recorders
_stage_state = {"changed": {}}


def bind_sbc_stage_recorders():
    from matid.clustering.sbc import SBC
    if getattr(SBC, "_verif_stage_bound", False):
        return
    SBC._verif_stage_bound = True
    orig_merge, orig_loc, orig_clean = SBC._merge_clusters, SBC._localize_clusters, SBC._clean_clusters

    def merge(self, system, clusters, *a, **kw):
        n_in = len(clusters)
        out = orig_merge(self, system, clusters, *a, **kw)
        r = core.rec()
        if r is not None and not core.suspended():
            r.note("stage_merge_calls")
            if len(out) < n_in:
                r.note("stage_merge_clusters_merged", n_in - len(out))
        return out

    def localize(self, system, clusters, *a, **kw):
        before = {id(c): len(c.indices) for c in clusters}
        out = orig_loc(self, system, clusters, *a, **kw)
        r = core.rec()
        if r is not None and not core.suspended():
            removed = sum(before[id(c)] - len(c.indices) for c in out if id(c) in before)
            if removed:
                r.note("stage_localize_atoms_reassigned", removed)
                for c in out:
                    if id(c) in before and before[id(c)] != len(c.indices):
                        _stage_state["changed"][id(c)] = True
        return out

    def clean(self, clusters, *a, **kw):
        before = {id(c): len(c.indices) for c in clusters}
        out = orig_clean(self, clusters, *a, **kw)
        r = core.rec()
        if r is not None and not core.suspended():
            dropped = sum(before[id(c)] - len(c.indices) for c in out if id(c) in before)
            if dropped:
                r.note("stage_clean_atoms_dropped", dropped)
                for c in out:
                    if id(c) in before and before[id(c)] != len(c.indices):
                        _stage_state["changed"][id(c)] = True
            if len(out) < len(clusters):
                r.note("stage_clean_clusters_not_reported", len(clusters) - len(out))
        return out

    SBC._merge_clusters, SBC._localize_clusters, SBC._clean_clusters = merge, localize, clean


def changed_clusters():
    return _stage_state["changed"]


def reset_stage_state():
    _stage_state["changed"] = {}


# ------------------------------------------------------------------------------------------------ C17
def check_classification(rec, name, system, before, after, clf, result, exc, repeat=None):
    import matid.geometry
    from matid.classification import classifications as K
    rec.call(name)
    n = len(system)
    cell = system.get_cell().array
    pbc = system.get_pbc()
    wit = {"input": describe(system), "cluster_threshold": float(clf.cluster_threshold), "min_coverage": float(clf.min_coverage)}
    in_domain = n > 0 and (abs(np.linalg.det(cell)) > 1e-9 or not pbc.any())
    diff = fingerprint_diff(before, after)
    if diff:
        rec.judged(name)
        rec.violation(name, "C17|input-mutated|%s" % "+".join(sorted(diff)), "classify changed the caller's structure: %s" % diff, wit)
    if not in_domain:
        rec.ood(name)
        if exc is not None and not isinstance(exc, ValueError):
            rec.note("C17_out_of_domain_exception:%s" % type(exc).__name__)
        return
    rec.judged(name)
    if exc is not None:
        rec.violation(name, "C17|exception|%s" % type(exc).__name__, "classify raised %r on a structure with a full-rank cell / no periodicity" % (exc,), wit)
        return
    with core.suspend():
        wrapped = system.copy()
        try:
            wrapped.wrap()
            d = matid.geometry.get_dimensionality(wrapped, clf.cluster_threshold)
        except Exception as e:
            rec.note("C17_reference_raised:%s" % type(e).__name__); return
    # independent reference for the same quantity (oracles/periodic_rank: union-find over all periodic images, rank of
    # the cycle lattice): the library function above is itself under test (C09) only for thresholds <= 3.5
    try:
        from oracles import periodic_rank as prank
        rr = resolve_radii(getattr(clf, "radii", "covalent"), wrapped.get_atomic_numbers())
        if rr is not None and np.all(np.isfinite(rr)) and n <= 200:
            exp, info = prank.expected_dimensionality(wrapped.get_positions(), wrapped.get_cell().array, np.array(wrapped.get_pbc(), bool),
                                                      rr, float(clf.cluster_threshold))
            if info["borderline"] or (info["n_components"] == 1 and info["rank_z"] != info["rank_gf2"]):
                rec.note("C17_independent_reference_ill_conditioned")
            else:
                rec.note("C17_independent_reference_evaluated")
                if exp != d:
                    rec.violation(name, "C17|dimensionality-reference-differs|lib=%s|oracle=%s" % (d, exp),
                                  "get_dimensionality(wrapped, cluster_threshold) = %r but the periodic bonding network has %s"
                                  % (d, "more than one component" if exp is None else "rank %r" % exp), dict(wit, library=d, oracle=exp))
                    d = exp
    except OverflowError:
        rec.note("C17_independent_reference_too_large")
    t = type(result)
    if d is None:
        expect = {K.Unknown}
    elif d == 0:
        expect = {K.Atom} if n == 1 else {K.Class0D}
    elif d == 1:
        expect = {K.Class1D}
    elif d == 2:
        expect = {K.Class2D, K.Surface, K.Material2D}
    else:
        expect = {K.Class3D}
    if t not in expect:
        rec.violation(name, "C17|class-vs-dimensionality|dim=%s|%s" % (d, t.__name__),
                      "classified as %s but the dimensionality of the wrapped structure is %r (%d atoms)" % (t.__name__, d, n), dict(wit, dimensionality=d, got=t.__name__))
    if t in (K.Surface, K.Material2D):
        try:
            basis = set(int(i) for i in result.basis_indices)
            outl = set(int(i) for i in result.outliers)
            proto = result.prototype_cell
        except Exception as e:
            rec.violation(name, "C17|region-access|%s" % type(e).__name__, "cannot read region of a %s result: %r" % (t.__name__, e), wit); return
        from ase import Atoms
        if not isinstance(proto, Atoms):
            rec.violation(name, "C17|no-prototype-cell", "%s result without a prototype cell" % t.__name__, wit)
        if basis & outl or (basis | outl) != set(range(n)):
            rec.violation(name, "C17|partition", "basis atoms and outliers do not partition the atoms", wit)
        if len(basis) < clf.min_coverage * n - 1e-9:
            rec.violation(name, "C17|coverage", "region covers %d of %d atoms < min_coverage %r" % (len(basis), n, clf.min_coverage), wit)
    if repeat is not None and type(repeat) is not t:
        rec.violation(name, "C17|not-repeatable", "repeated classify gave %s then %s" % (t.__name__, type(repeat).__name__), wit)
    rec.note("C17_class_%s" % t.__name__)
