"""Monitor plumbing: monitors *record and return* - they never raise into the observed code (which
swallows exceptions in several places) and never change its results."""
import functools
import threading

_tls = threading.local()


class Recorder(object):
    """Per-case event sink: counters per monitor and a bounded list of violation witnesses."""

    def __init__(self, max_witnesses=6):
        self.monitors = {}
        self.violations = []
        self.stage = {}
        self.max_witnesses = max_witnesses

    def counter(self, name):
        return self.monitors.setdefault(name, {"calls": 0, "judged": 0, "ood": 0, "viol": 0})

    def call(self, name):
        self.counter(name)["calls"] += 1

    def ood(self, name, n=1):
        self.counter(name)["ood"] += n

    def judged(self, name, n=1):
        self.counter(name)["judged"] += n

    def violation(self, name, key, what, witness=None):
        c = self.counter(name)
        c["viol"] += 1
        if sum(1 for v in self.violations if v["key"] == key) < self.max_witnesses:
            self.violations.append({"monitor": name, "key": key, "what": what, "witness": witness or {}})

    def note(self, name, n=1):
        self.stage[name] = self.stage.get(name, 0) + n

    def export(self):
        return {"monitors": self.monitors, "violations": self.violations, "stage": self.stage}


_current = [None]


def set_recorder(rec):
    _current[0] = rec


def rec():
    return _current[0]


def suspended():
    return getattr(_tls, "off", 0) > 0


class suspend(object):
    """Disables monitors while an oracle itself calls into MatID."""

    def __enter__(self):
        _tls.off = getattr(_tls, "off", 0) + 1

    def __exit__(self, *a):
        _tls.off -= 1


def observe(post, pre=None):
    """post(rec, snapshot, result, exc, *args, **kwargs) runs after the real function returned (or
    raised); it records events and returns nothing.  pre(*args, **kwargs) -> snapshot runs before."""

    def deco(fn):
        @functools.wraps(fn)
        def wrapper(*args, **kwargs):
            r = _current[0]
            if r is None or suspended():
                return fn(*args, **kwargs)
            snap = None
            if pre is not None:
                try:
                    with suspend():
                        snap = pre(*args, **kwargs)
                except Exception as e:  # monitor bug must not disturb the code under test
                    r.note("monitor_error:pre:%s:%s" % (fn.__name__, type(e).__name__))
            try:
                result = fn(*args, **kwargs)
            except BaseException as e:
                try:
                    with suspend():
                        post(r, snap, None, e, *args, **kwargs)
                except Exception as e2:
                    r.note("monitor_error:post:%s:%s" % (fn.__name__, type(e2).__name__))
                raise
            try:
                with suspend():
                    post(r, snap, result, None, *args, **kwargs)
            except Exception as e2:
                r.note("monitor_error:post:%s:%s:%s" % (fn.__name__, type(e2).__name__, str(e2)[:80]))
            return result
        wrapper.__wrapped_by_verif__ = True
        return wrapper
    return deco


def bind(targets, name, wrapper_factory):
    """targets: list of objects (modules/classes) holding attribute `name`; replaces each by the wrapped
    original (wrapped once).  Returns the original."""
    orig = None
    for t in targets:
        cur = getattr(t, name)
        if getattr(cur, "__wrapped_by_verif__", False):
            continue
        if orig is None:
            orig = cur
            wrapped = wrapper_factory(cur)
        setattr(t, name, wrapped if cur is orig else wrapper_factory(cur))
    return orig
