"""Postconditions for the native geometry layer (C10 displacement tensor, C16 extension / neighbour
queries / matching).  All record-and-return."""
import itertools

import numpy as np

from oracles import mic as omic

ATOL = 1e-9
BAND = 1e-9


def fhex(a):
    return [float(x).hex() for x in np.asarray(a, float).ravel()]


def structure_witness(pos, cell, pbc, **kw):
    w = {"positions_hex": fhex(pos), "cell_hex": fhex(cell), "pbc": [bool(x) for x in np.asarray(pbc).ravel()],
         "positions": np.asarray(pos, float).round(6).tolist(), "cell": np.asarray(cell, float).round(6).tolist()}
    w.update(kw)
    return w


def inside_cell(pos, cell, pbc=None, eps=1e-12):
    """True iff every atom has scaled coordinates in [0,1) along every non-zero cell vector.  Zero (missing)
    vectors are completed by an orthogonal unit vector and not constrained."""
    cell = np.array(cell, float)
    zero = [i for i in range(3) if not cell[i].any()]
    if zero:
        from ase.geometry import complete_cell
        cell = complete_cell(cell)
    if abs(np.linalg.det(cell)) < 1e-12:
        return False
    s = np.linalg.solve(cell.T, np.asarray(pos, float).T).T
    for i in range(3):
        if i in zero:
            continue
        if (s[:, i] < -eps).any() or (s[:, i] >= 1.0 + eps).any():
            return False
    return True


def tol(*vals):
    m = max([1.0] + [float(np.max(np.abs(v))) for v in vals if np.size(v)])
    return ATOL * m


def check_displacement_tensor(rec, name, lane, pos, cell, pbc, cutoff, D, F, dist, rng, max_pairs=150,
                              context="direct"):
    """C10 oracle for one call.  D: (n,n,3); F, dist may be None (not returned)."""
    rec.call(name)
    pos = np.asarray(pos, float)
    n = len(pos)
    cell = np.eye(3) if cell is None else np.array(cell, float)
    pbc = np.asarray(omic_expand(pbc), bool)
    if cutoff is None:
        cutoff = np.inf
    P = [i for i in range(3) if pbc[i]]
    A = cell[P]
    if len(P) and np.linalg.matrix_rank(A) < len(P):
        rec.ood(name)
        return
    if not inside_cell(pos, cell):
        rec.ood(name)
        return
    if n == 0:
        rec.ood(name)
        return

    def viol(kind, what, **kw):
        rec.violation(name, "C10|%s" % kind, what,
                      structure_witness(pos, cell, pbc, cutoff=repr(cutoff), lane=lane, context=context, **kw))

    # diagonal
    di = np.arange(n)
    bad = False
    if not np.all(D[di, di] == 0):
        viol("diagonal", "displacement diagonal is not zero"); bad = True
    if dist is not None and not np.all(dist[di, di] == 0):
        viol("diagonal", "distance diagonal is not zero"); bad = True
    if F is not None and not np.all(F[di, di] == 0):
        viol("diagonal", "factor diagonal is not zero"); bad = True
    if n == 1:
        rec.judged(name)
        return
    iu = np.triu_indices(n, 1)
    if len(iu[0]) > max_pairs:
        sel = rng.choice(len(iu[0]), size=max_pairs, replace=False)
        I, J = iu[0][sel], iu[1][sel]
    else:
        I, J = iu
    diffs = pos[I] - pos[J]
    try:
        _, dmic, _ = omic.mic_vectors(diffs, cell, pbc)
    except OverflowError:
        rec.ood(name)
        return
    Lmax = max([np.linalg.norm(cell[i]) for i in P] + [0.0])
    pinvA = np.linalg.pinv(A) if len(P) else None
    t = tol(pos, cell)
    for k in range(len(I)):
        i, j = int(I[k]), int(J[k])
        v = D[i, j]
        fin = np.isfinite(v)
        dm = dmic[k]
        if fin.any() and not fin.all():
            viol("partial-inf", "entry (%d,%d) is partly infinite" % (i, j), pair=[i, j]); continue
        finite = bool(fin.all())
        # symmetry of the tables
        vji = D[j, i]
        if finite:
            if not np.allclose(vji, -v, rtol=0, atol=t):
                viol("asymmetric", "D[j,i] != -D[i,j] for pair (%d,%d)" % (i, j), pair=[i, j], dij=v.tolist(), dji=vji.tolist())
        else:
            if np.isfinite(vji).any():
                viol("asymmetric", "D[i,j] infinite but D[j,i] finite for pair (%d,%d)" % (i, j), pair=[i, j])
        if dist is not None:
            if finite != bool(np.isfinite(dist[i, j])) or (finite and abs(dist[i, j] - dist[j, i]) > t) \
                    or (not finite and np.isfinite(dist[j, i])):
                viol("asymmetric", "distance table inconsistent for pair (%d,%d)" % (i, j), pair=[i, j],
                     dist_ij=repr(dist[i, j]), dist_ji=repr(dist[j, i]))
        if finite:
            # genuine periodic image with integer factors vanishing on non-periodic axes
            shift = pos[i] - pos[j] - v
            if len(P):
                fp = shift @ pinvA
                fr = np.round(fp)
                resid = shift - fr @ A
            else:
                fr = np.zeros(0)
                resid = shift
            if np.abs(resid).max() > 10 * t or (len(P) and np.abs(fp - fr).max() > 1e-6):
                viol("not-an-image", "entry (%d,%d) is not r_i - r_j - f.cell with integer f (zero on non-periodic axes)" % (i, j),
                     pair=[i, j], disp=v.tolist(), residual=resid.tolist())
            if F is not None:
                ffull = np.zeros(3)
                for kk, ax in enumerate(P):
                    ffull[ax] = fr[kk]
                if not np.all(np.isfinite(F[i, j])) or np.abs(F[i, j] - ffull).max() > 1e-9:
                    viol("factor-mismatch", "factor table entry (%d,%d) does not reproduce the displacement" % (i, j),
                         pair=[i, j], factor=np.asarray(F[i, j]).tolist(), implied=ffull.tolist())
                if not np.allclose(F[j, i], -F[i, j], rtol=0, atol=1e-9):
                    viol("asymmetric", "factor table not antisymmetric for pair (%d,%d)" % (i, j), pair=[i, j])
            nv = float(np.linalg.norm(v))
            if dist is not None and abs(dist[i, j] - nv) > t:
                viol("distance-norm", "distance (%d,%d) is not the norm of the displacement" % (i, j), pair=[i, j],
                     dist=repr(dist[i, j]), norm=repr(nv))
            if nv < dm - t:
                viol("shorter-than-minimum", "entry shorter than the brute-force minimum image (%r < %r)" % (nv, dm), pair=[i, j])
            if np.isfinite(cutoff):
                if dm <= cutoff - BAND - t:
                    if abs(nv - dm) > t:
                        viol("not-minimum", "pair (%d,%d): reported %r, true minimum image %r (cutoff %r)" % (i, j, nv, dm, cutoff), pair=[i, j])
                elif dm > cutoff + BAND + t:
                    viol("finite-beyond-cutoff", "pair (%d,%d) with d_mic=%r > cutoff=%r reported finite (%r)" % (i, j, dm, cutoff, nv), pair=[i, j])
            else:
                if dm <= Lmax - BAND - t and abs(nv - dm) > t:
                    viol("not-minimum", "pair (%d,%d): reported %r, true minimum image %r (unbounded cutoff, L_max %r)" % (i, j, nv, dm, Lmax), pair=[i, j])
        else:
            if np.isfinite(cutoff):
                if dm <= cutoff - BAND - t:
                    viol("missing-within-cutoff", "pair (%d,%d) with d_mic=%r <= cutoff=%r reported infinite" % (i, j, dm, cutoff), pair=[i, j])
            else:
                viol("inf-with-unbounded-cutoff", "pair (%d,%d) infinite although the cutoff is unbounded" % (i, j), pair=[i, j])
    rec.judged(name, len(I))


def omic_expand(pbc):
    if pbc is True:
        return [True] * 3
    if pbc is False:
        return [False] * 3
    return list(pbc)
