"""Postconditions for the native geometry layer (C10 displacement tensor, C16 extension / neighbour
queries / matching).  All record-and-return."""
import itertools

import numpy as np

from oracles import mic as omic

ATOL = 1e-9
BAND = 1e-9


def fhex(a):
    return [float(x).hex() for x in np.asarray(a, float).ravel()]


def structure_witness(pos, cell, pbc, **kw):
    w = {"positions_hex": fhex(pos), "cell_hex": fhex(cell), "pbc": [bool(x) for x in np.asarray(pbc).ravel()],
         "positions": np.asarray(pos, float).round(6).tolist(), "cell": np.asarray(cell, float).round(6).tolist()}
    w.update(kw)
    return w


def inside_cell(pos, cell, pbc=None, eps=1e-12):
    """True iff every atom has scaled coordinates in [0,1) along every non-zero cell vector.  Zero (missing)
    vectors are completed by an orthogonal unit vector and not constrained."""
    cell = np.array(cell, float)
    zero = [i for i in range(3) if not cell[i].any()]
    if zero:
        from ase.geometry import complete_cell
        cell = complete_cell(cell)
    if abs(np.linalg.det(cell)) < 1e-12:
        return False
    s = np.linalg.solve(cell.T, np.asarray(pos, float).T).T
    for i in range(3):
        if i in zero:
            continue
        if (s[:, i] < -eps).any() or (s[:, i] >= 1.0 + eps).any():
            return False
    return True


def tol(*vals):
    m = max([1.0] + [float(np.max(np.abs(v))) for v in vals if np.size(v)])
    return ATOL * m


def check_displacement_tensor(rec, name, lane, pos, cell, pbc, cutoff, D, F, dist, rng, max_pairs=150,
                              context="direct"):
    """C10 oracle for one call.  D: (n,n,3); F, dist may be None (not returned)."""
    rec.call(name)
    pos = np.asarray(pos, float)
    n = len(pos)
    cell = np.eye(3) if cell is None else np.array(cell, float)
    pbc = np.asarray(omic_expand(pbc), bool)
    if cutoff is None:
        cutoff = np.inf
    P = [i for i in range(3) if pbc[i]]
    A = cell[P]
    if len(P) and np.linalg.matrix_rank(A) < len(P):
        rec.ood(name)
        return
    if not inside_cell(pos, cell):
        rec.ood(name)
        return
    if n == 0:
        rec.ood(name)
        return

    def viol(kind, what, **kw):
        rec.violation(name, "C10|%s" % kind, what,
                      structure_witness(pos, cell, pbc, cutoff=repr(cutoff), lane=lane, context=context, **kw))

    # diagonal
    di = np.arange(n)
    bad = False
    if not np.all(D[di, di] == 0):
        viol("diagonal", "displacement diagonal is not zero"); bad = True
    if dist is not None and not np.all(dist[di, di] == 0):
        viol("diagonal", "distance diagonal is not zero"); bad = True
    if F is not None and not np.all(F[di, di] == 0):
        viol("diagonal", "factor diagonal is not zero"); bad = True
    if n == 1:
        rec.judged(name)
        return
    iu = np.triu_indices(n, 1)
    if len(iu[0]) > max_pairs:
        sel = rng.choice(len(iu[0]), size=max_pairs, replace=False)
        I, J = iu[0][sel], iu[1][sel]
    else:
        I, J = iu
    diffs = pos[I] - pos[J]
    try:
        _, dmic, _ = omic.mic_vectors(diffs, cell, pbc)
    except OverflowError:
        rec.ood(name)
        return
    # second opinion on the oracle itself: a deliberately wide exhaustive lattice search (no radius argument) on a
    # sample of pairs.  (ASE's find_mic was tried as cross-check and dropped: it returns non-minimal images for
    # partial pbc in sheared cells and, rarely, for fully periodic sheared cells - verified against this wide search.)
    if len(P) and len(I):
        sel = rng.choice(len(I), size=min(4, len(I)), replace=False)
        offs = np.array(list(itertools.product(range(-7, 8), repeat=len(P))), float) @ A
        for k in sel:
            wide = np.linalg.norm(diffs[k][None, :] - offs, axis=1).min()
            rec.note("mic_oracle_cross_checked_pairs")
            if dmic[k] > wide + 1e-9 * max(1.0, wide):
                rec.note("mic_oracle_conflict")
                rec.ood(name)
                return
    Lmax = max([np.linalg.norm(cell[i]) for i in P] + [0.0])
    pinvA = np.linalg.pinv(A) if len(P) else None
    t = tol(pos, cell)
    for k in range(len(I)):
        i, j = int(I[k]), int(J[k])
        v = D[i, j]
        fin = np.isfinite(v)
        dm = dmic[k]
        if fin.any() and not fin.all():
            viol("partial-inf", "entry (%d,%d) is partly infinite" % (i, j), pair=[i, j]); continue
        finite = bool(fin.all())
        # symmetry of the tables
        vji = D[j, i]
        if finite:
            if not np.allclose(vji, -v, rtol=0, atol=t):
                viol("asymmetric", "D[j,i] != -D[i,j] for pair (%d,%d)" % (i, j), pair=[i, j], dij=v.tolist(), dji=vji.tolist())
        else:
            if np.isfinite(vji).any():
                viol("asymmetric", "D[i,j] infinite but D[j,i] finite for pair (%d,%d)" % (i, j), pair=[i, j])
        if dist is not None:
            if finite != bool(np.isfinite(dist[i, j])) or (finite and abs(dist[i, j] - dist[j, i]) > t) \
                    or (not finite and np.isfinite(dist[j, i])):
                viol("asymmetric", "distance table inconsistent for pair (%d,%d)" % (i, j), pair=[i, j],
                     dist_ij=repr(dist[i, j]), dist_ji=repr(dist[j, i]))
        if finite:
            # genuine periodic image with integer factors vanishing on non-periodic axes
            shift = pos[i] - pos[j] - v
            if len(P):
                fp = shift @ pinvA
                fr = np.round(fp)
                resid = shift - fr @ A
            else:
                fr = np.zeros(0)
                resid = shift
            if np.abs(resid).max() > 10 * t or (len(P) and np.abs(fp - fr).max() > 1e-6):
                viol("not-an-image", "entry (%d,%d) is not r_i - r_j - f.cell with integer f (zero on non-periodic axes)" % (i, j),
                     pair=[i, j], disp=v.tolist(), residual=resid.tolist())
            if F is not None:
                ffull = np.zeros(3)
                for kk, ax in enumerate(P):
                    ffull[ax] = fr[kk]
                if not np.all(np.isfinite(F[i, j])) or np.abs(F[i, j] - ffull).max() > 1e-9:
                    viol("factor-mismatch", "factor table entry (%d,%d) does not reproduce the displacement" % (i, j),
                         pair=[i, j], factor=np.asarray(F[i, j]).tolist(), implied=ffull.tolist())
                if not np.allclose(F[j, i], -F[i, j], rtol=0, atol=1e-9):
                    viol("asymmetric", "factor table not antisymmetric for pair (%d,%d)" % (i, j), pair=[i, j])
            nv = float(np.linalg.norm(v))
            if dist is not None and abs(dist[i, j] - nv) > t:
                viol("distance-norm", "distance (%d,%d) is not the norm of the displacement" % (i, j), pair=[i, j],
                     dist=repr(dist[i, j]), norm=repr(nv))
            if nv < dm - t:
                viol("shorter-than-minimum", "entry shorter than the brute-force minimum image (%r < %r)" % (nv, dm), pair=[i, j])
            if np.isfinite(cutoff):
                if dm <= cutoff - BAND - t:
                    if abs(nv - dm) > t:
                        viol("not-minimum", "pair (%d,%d): reported %r, true minimum image %r (cutoff %r)" % (i, j, nv, dm, cutoff), pair=[i, j])
                elif dm > cutoff + BAND + t:
                    viol("finite-beyond-cutoff", "pair (%d,%d) with d_mic=%r > cutoff=%r reported finite (%r)" % (i, j, dm, cutoff, nv), pair=[i, j])
            else:
                if dm <= Lmax - BAND - t and abs(nv - dm) > t:
                    viol("not-minimum", "pair (%d,%d): reported %r, true minimum image %r (unbounded cutoff, L_max %r)" % (i, j, nv, dm, Lmax), pair=[i, j])
        else:
            if np.isfinite(cutoff):
                if dm <= cutoff - BAND - t:
                    viol("missing-within-cutoff", "pair (%d,%d) with d_mic=%r <= cutoff=%r reported infinite" % (i, j, dm, cutoff), pair=[i, j])
            else:
                viol("inf-with-unbounded-cutoff", "pair (%d,%d) infinite although the cutoff is unbounded" % (i, j), pair=[i, j])
    rec.judged(name, len(I))


def omic_expand(pbc):
    if pbc is True:
        return [True] * 3
    if pbc is False:
        return [False] * 3
    return list(pbc)


# ======================================================================================= C16
def _complete(cell):
    cell = np.array(cell, float)
    zero = [i for i in range(3) if not cell[i].any()]
    if zero:
        from ase.geometry import complete_cell
        cell = np.array(complete_cell(cell), float)
    return cell, zero


def dist_to_cell_region(points, cell, zero_axes):
    """Exact distance from each point to the region {s.cell : s in [0,1] on existing axes, unconstrained along
    missing (zero) axes}.  Box-constrained least squares by active-set enumeration (27 sets at most)."""
    points = np.atleast_2d(np.asarray(points, float))
    ccell, _ = _complete(cell)
    ex = [i for i in range(3) if i not in zero_axes]
    # remove the components along the missing directions (unconstrained there)
    if zero_axes:
        # orthonormal basis of span of existing vectors
        Q, _ = np.linalg.qr(ccell[ex].T)           # 3 x k
        pts = points @ Q                            # coordinates in span
        A = ccell[ex] @ Q                           # k x k
    else:
        pts = points
        A = ccell
    k = len(ex)
    best = np.full(len(pts), np.inf)
    for state in itertools.product((0, 1, 2), repeat=k):      # 0 -> s=0, 1 -> s=1, 2 -> free
        fixed = np.array([1.0 if s == 1 else 0.0 for s in state])
        free = [i for i, s in enumerate(state) if s == 2]
        base = fixed @ A
        r = pts - base
        if free:
            Af = A[free]                                       # f x k
            coef = r @ np.linalg.pinv(Af)                      # m x f
            ok = np.all((coef >= -1e-12) & (coef <= 1 + 1e-12), axis=1)
            resid = r - coef @ Af
            d = np.linalg.norm(resid, axis=1)
            d[~ok] = np.inf
        else:
            d = np.linalg.norm(r, axis=1)
        best = np.minimum(best, d)
    return best


def check_extended_system(rec, name, lane, pos, numbers, cell, pbc, cutoff, es, context="direct"):
    rec.call(name)
    pos = np.asarray(pos, float)
    n = len(pos)
    cell0 = np.array(cell, float)
    pbc = np.asarray(pbc, bool)
    zero = [i for i in range(3) if not cell0[i].any()]
    if n == 0 or any(pbc[i] for i in zero) or not np.isfinite(cutoff) or cutoff < 0:
        rec.ood(name); return
    ccell, _ = _complete(cell0)
    if abs(np.linalg.det(ccell)) < 1e-12 or not inside_cell(pos, cell0):
        rec.ood(name); return

    def viol(kind, what, **kw):
        rec.violation(name, "C16|extend|%s" % kind, what,
                      structure_witness(pos, cell0, pbc, cutoff=repr(cutoff), lane=lane, context=context, **kw))

    P = np.asarray(es.positions, float); I = np.asarray(es.indices); F = np.asarray(es.factors, float)
    Z = np.asarray(es.atomic_numbers)
    m = len(I)
    if not (P.shape == (m, 3) and F.shape == (m, 3) and Z.shape == (m,)):
        viol("shape", "inconsistent array shapes in the extended system"); rec.judged(name); return
    if m < n or not np.array_equal(I[:n], np.arange(n)) or np.any(F[:n] != 0) or not np.array_equal(P[:n], pos):
        viol("originals-first", "the first n entries are not the original atoms with zero offsets")
    if np.any(I < 0) or np.any(I >= n):
        viol("index-range", "original index out of range"); rec.judged(name); return
    if not np.array_equal(F, np.round(F)):
        viol("non-integer-offset", "non-integer cell offsets")
    if np.any(F[:, ~pbc] != 0):
        viol("offset-on-nonperiodic", "non-zero offset along a non-periodic axis")
    t = tol(pos, cell0, P)
    if np.abs(P - (pos[I] + F @ cell0)).max() > 10 * t:
        viol("position", "position != original + offset.cell")
    if numbers is not None and not np.array_equal(Z, np.asarray(numbers)[I]):
        viol("species", "atomic numbers of the images do not follow the originals")
    keys = set()
    dup = False
    for k in range(m):
        key = (int(I[k]), int(F[k, 0]), int(F[k, 1]), int(F[k, 2]))
        if key in keys:
            dup = True
        keys.add(key)
    if dup:
        viol("duplicate", "an (index, offset) pair occurs more than once")
    # completeness
    h = omic.heights(ccell, [i not in zero for i in range(3)])
    K = [int(np.ceil(cutoff / h[i])) + 1 if (pbc[i] and i not in zero) else 0 for i in range(3)]
    if (2 * K[0] + 1) * (2 * K[1] + 1) * (2 * K[2] + 1) * n > 120000:
        rec.ood(name); return
    offs = np.array(list(itertools.product(*[range(-k, k + 1) for k in K])), float)
    imgs = (pos[:, None, :] + (offs @ cell0)[None, :, :]).reshape(-1, 3)
    d = dist_to_cell_region(imgs, cell0, zero).reshape(n, len(offs))
    need = d <= cutoff - BAND - t
    missing = []
    for a, o in zip(*np.nonzero(need)):
        key = (int(a), int(offs[o, 0]), int(offs[o, 1]), int(offs[o, 2]))
        if key not in keys:
            missing.append((key, float(d[a, o])))
    if missing:
        viol("incomplete", "%d image(s) within the extension distance of the cell are missing, e.g. atom %d offset %s at distance %r"
             % (len(missing), missing[0][0][0], missing[0][0][1:], missing[0][1]), missing=[list(mm[0]) for mm in missing[:5]])
    rec.judged(name)
    return int(need.sum())


def periodic_inside(points, cell, pbc, eps=1e-12):
    """scaled coordinates along *periodic* axes within [0,1]"""
    ccell, zero = _complete(cell)
    s = np.linalg.solve(ccell.T, np.atleast_2d(points).T).T
    ok = np.ones(len(s), bool)
    for i in range(3):
        if pbc[i]:
            ok &= (s[:, i] >= -eps) & (s[:, i] <= 1 + eps)
    return ok


def check_neighbour_query(rec, name, lane, pos, cell, pbc, extension, cutoff, es, q, res, context="direct"):
    """es: the extended system the cell list was built on (recomputed by the caller with the same arguments)."""
    rec.call(name)
    pos = np.asarray(pos, float)
    cell0 = np.array(cell, float)
    pbc = np.asarray(pbc, bool)
    q = np.asarray(q, float)
    zero = [i for i in range(3) if not cell0[i].any()]
    if any(pbc[i] for i in zero) or not inside_cell(pos, cell0) or not periodic_inside(q, cell0, pbc)[0]:
        rec.ood(name); return

    def viol(kind, what, **kw):
        rec.violation(name, "C16|query|%s" % kind, what,
                      structure_witness(pos, cell0, pbc, extension=repr(extension), cutoff=repr(cutoff), query=q.tolist(),
                                        query_hex=fhex(q), lane=lane, context=context, **kw))
    P = np.asarray(es.positions, float); I = np.asarray(es.indices); F = np.asarray(es.factors, float)
    t = tol(pos, cell0, q)
    d = np.linalg.norm(q[None, :] - P, axis=1)
    must = set(np.nonzero(d <= cutoff - BAND - t)[0].tolist())
    may = set(np.nonzero(d <= cutoff + BAND + t)[0].tolist())
    got = list(res.indices)
    gs = set(got)
    if len(gs) != len(got):
        viol("duplicate", "an image is returned twice")
    if not must <= gs:
        k = sorted(must - gs)[0]
        viol("missed", "image %d (atom %d, offset %s) at distance %r <= cutoff %r not returned" % (k, I[k], F[k].tolist(), d[k], cutoff))
    if not gs <= may:
        k = sorted(gs - may)[0]
        viol("beyond-cutoff", "returned image %d lies at distance %r > cutoff %r" % (k, d[k] if 0 <= k < len(d) else None, cutoff))
    for pos_k, k in enumerate(got):
        if not (0 <= k < len(P)):
            viol("index-range", "returned extended index out of range"); break
        if res.indices_original[pos_k] != I[k] or list(res.factors[pos_k]) != F[k].tolist():
            viol("bookkeeping", "indices_original / factors do not belong to the returned image"); break
        disp = np.asarray(res.displacements[pos_k], float)
        if np.abs(disp - (q - P[k])).max() > t or abs(res.distances[pos_k] - d[k]) > t \
                or abs(res.distances_squared[pos_k] - d[k] ** 2) > t * max(1.0, d[k]):
            viol("inexact", "distance / displacement of a returned image is wrong"); break
    # completeness w.r.t. *all* periodic images (needs extension >= cutoff)
    if extension >= cutoff and len(pos):
        diffs = q[None, :] - pos
        try:
            # all images within cutoff, not only the nearest: enumerate offsets
            h = omic.heights(_complete(cell0)[0], [i not in zero for i in range(3)])
            K = [int(np.ceil(cutoff / h[i])) + 1 if pbc[i] else 0 for i in range(3)]
            if (2 * K[0] + 1) * (2 * K[1] + 1) * (2 * K[2] + 1) * len(pos) <= 60000:
                offs = np.array(list(itertools.product(*[range(-k, k + 1) for k in K])), float)
                imgs = pos[:, None, :] + (offs @ cell0)[None, :, :]
                dd = np.linalg.norm(q[None, None, :] - imgs, axis=2)
                exp = set()
                for a, o in zip(*np.nonzero(dd <= cutoff - BAND - t)):
                    exp.add((int(a), int(offs[o, 0]), int(offs[o, 1]), int(offs[o, 2])))
                have = set((int(res.indices_original[k]), int(res.factors[k][0]), int(res.factors[k][1]), int(res.factors[k][2]))
                           for k in range(len(got)))
                if not exp <= have:
                    mm = sorted(exp - have)[0]
                    viol("missed-image", "periodic image (atom %d, offset %s) within the cutoff of the query point is not returned "
                         "(extension %r >= cutoff %r)" % (mm[0], mm[1:], extension, cutoff))
                rec.judged(name + ":all-images")
        except OverflowError:
            pass
    rec.judged(name)


def nearest_images(probes, pos, cell, pbc):
    """For each probe: (distances to the nearest image of every atom (m,n), offsets (m,n,3))."""
    probes = np.atleast_2d(probes)
    m, n = len(probes), len(pos)
    diffs = (probes[:, None, :] - pos[None, :, :]).reshape(-1, 3)
    _, d, nmin = omic.mic_vectors(diffs, cell, pbc)
    return d.reshape(m, n), nmin.reshape(m, n, 3)


def check_matches(rec, name, lane, system_pos, system_num, cell, pbc, extension, cl_cutoff, probes, numbers, tolerance,
                  result, simple, rng, max_probes=60, context="direct"):
    rec.call(name)
    pos = np.asarray(system_pos, float)
    cell0 = np.array(cell, float)
    pbc = np.asarray(pbc, bool)
    probes = np.atleast_2d(np.asarray(probes, float))
    numbers = np.asarray(numbers)
    zero = [i for i in range(3) if not cell0[i].any()]
    if zero or not inside_cell(pos, cell0) or len(pos) == 0 or len(probes) == 0:
        rec.ood(name); return
    if tolerance > min(extension, cl_cutoff) + BAND:
        rec.ood(name); return
    if simple:
        from ase.geometry import wrap_positions
        matches, displacements = result
        eff = wrap_positions(probes, cell0, pbc) if abs(np.linalg.det(_complete(cell0)[0])) > 1e-12 else probes
        ok = np.ones(len(probes), bool)
    else:
        matches, substitutions, vacancies, copy_indices = result
        eff = probes
        ok = periodic_inside(probes, cell0, pbc)
    idx = np.nonzero(ok)[0]
    rec.ood(name, int((~ok).sum()))
    if len(idx) == 0:
        return
    if len(idx) > max_probes:
        idx = np.sort(rng.choice(idx, size=max_probes, replace=False))
    try:
        D, N = nearest_images(eff[idx], pos, cell0, pbc)
    except OverflowError:
        rec.ood(name); return
    t = tol(pos, cell0, probes)

    def viol(kind, what, k, **kw):
        rec.violation(name, "C16|match|%s" % kind, what,
                      structure_witness(pos, cell0, pbc, numbers=np.asarray(system_num).tolist(), probe=eff[k].tolist(), probe_hex=fhex(eff[k]),
                                        probe_number=int(numbers[k]), tolerance=repr(tolerance), extension=repr(extension),
                                        cl_cutoff=repr(cl_cutoff), simple=bool(simple), lane=lane, context=context, **kw))
    n_vac_expected = 0
    for row, k in enumerate(idx):
        d = D[row]
        order = np.argsort(d)
        j = int(order[0])
        dmin = float(d[j])
        tie = len(d) > 1 and (d[order[1]] - dmin) <= 1e-9 + t
        m = matches[k]
        sub = None if simple else substitutions[k]
        if dmin <= tolerance - BAND - t:
            same = int(system_num[j]) == int(numbers[k])
            if tie:
                rec.note("match_tie_skipped"); continue
            if same:
                if m is None or int(m) != j:
                    viol("wrong-match", "nearest image within tolerance is atom %d (d=%r) but match=%r" % (j, dmin, m), k)
                elif sub is not None:
                    viol("match-and-substitution", "both a match and a substitution reported", k)
            else:
                if m is not None:
                    viol("species-ignored", "atom %d of species %d matched for a probe of species %d" % (j, system_num[j], numbers[k]), k)
                elif not simple and (sub is None or int(sub.index) != j or int(sub.substitutional_element) != int(system_num[j])
                                      or int(sub.original_element) != int(numbers[k])):
                    viol("wrong-substitution", "nearest image within tolerance is atom %d of another species, substitution=%r"
                         % (j, None if sub is None else (sub.index, sub.original_element, sub.substitutional_element)), k)
            if not simple and (m is not None or sub is not None):
                got = np.asarray(copy_indices[k], float)
                found = j if m is not None else int(sub.index)
                dgot = np.linalg.norm(eff[k] - (pos[found] + got @ cell0)) if np.all(np.isfinite(got)) else np.inf
                if not np.array_equal(got, np.round(got)) or np.any(got[~pbc] != 0) or dgot > dmin + 10 * t:
                    # the offset must be that of the (nearest) image that was found
                    viol("wrong-offset", "reported cell offset %s, nearest image of atom %d is at offset %s" % (got.tolist(), j, N[row, j].tolist()), k)
            if simple and m is not None and displacements[k] is not None:
                img = pos[j] + N[row, j] @ cell0
                if np.abs(np.asarray(displacements[k], float) - (eff[k] - img)).max() > 10 * t:
                    viol("wrong-displacement", "displacement to the matched image is wrong", k)
        elif dmin > tolerance + BAND + t:
            if m is not None or sub is not None:
                viol("match-beyond-tolerance", "nothing lies within the tolerance (nearest %r > %r) but match=%r substitution=%r"
                     % (dmin, tolerance, m, None if sub is None else sub.index), k)
            if not simple:
                n_vac_expected += 1
                s = np.linalg.solve(_complete(cell0)[0].T, eff[k])
                exp = np.floor(s)
                got = np.asarray(copy_indices[k], float)
                near_int = np.abs(s - np.round(s)) < 1e-9
                if not np.array_equal(got[~near_int], exp[~near_int]) and not zero:
                    viol("vacancy-offset", "vacancy cell offset %s, expected floor(scaled)=%s" % (got.tolist(), exp.tolist()), k)
        rec.judged(name)
    if not simple:
        # every judged vacancy must be listed with its position and species
        vac_pos = np.array([v.position for v in vacancies]) if len(vacancies) else np.zeros((0, 3))
        for row, k in enumerate(idx):
            if D[row].min() > tolerance + BAND + t:
                if not len(vac_pos) or np.abs(vac_pos - eff[k]).sum(axis=1).min() > t:
                    viol("vacancy-missing", "probe without any image within tolerance is not reported as a vacancy", k)
                    break
