"""Postconditions for the symmetry family (C05, C07, C08, C12, C15), bound onto SymmetryAnalyzer's getters.
Each is evaluated once per analyzer object (the getters cache their results) and records events only."""
import numpy as np
import spglib

from monitors import core
from oracles import congruence, exprs


def _ds(atoms, tol):
    return spglib.get_symmetry_dataset((atoms.get_cell().array, atoms.get_scaled_positions(), atoms.get_atomic_numbers()),
                                       symprec=tol)


def describe(atoms):
    return {"numbers": [int(z) for z in atoms.get_atomic_numbers()],
            "positions_hex": [float(x).hex() for x in atoms.get_positions().ravel()],
            "cell_hex": [float(x).hex() for x in atoms.get_cell().array.ravel()],
            "pbc": [bool(b) for b in atoms.get_pbc()]}


def cellpar(cell):
    from ase.geometry import cell_to_cellpar
    return np.asarray(cell_to_cellpar(np.array(cell, float)))


def once(an, tag):
    done = an.__dict__.setdefault("_verif_done", set())
    if tag in done:
        return False
    done.add(tag)
    return True


def input_of(an):
    return an._original_system, float(an.symmetry_tol)


def _wit(an, **kw):
    sysm, tol = input_of(an)
    w = {"input": describe(sysm), "symmetry_tol": tol}
    w.update(kw)
    return w


SOHNCKE = None


def sohncke_groups():
    """The groups whose standard-setting operations are all proper, computed from spglib's Hall database."""
    global SOHNCKE
    if SOHNCKE is None:
        first = {}
        for h in range(1, 531):
            t = spglib.get_spacegroup_type(h)
            no = t.number if hasattr(t, "number") else t["number"]
            first.setdefault(no, h)
        s = set()
        for no, h in first.items():
            ops = spglib.get_symmetry_from_database(h)
            if all(round(np.linalg.det(r)) == 1 for r in ops["rotations"]):
                s.add(no)
        assert len(s) == 65, len(s)
        SOHNCKE = s
    return SOHNCKE


# ----------------------------------------------------------------------------------------------- C05
def check_conventional(rec, an, conv, name="conventional_system_post"):
    sysm, tol = input_of(an)
    if int(np.sum(sysm.get_pbc())) != 3:
        return
    if not once(an, "C05"):
        return
    rec.call(name)
    ds_in = _ds(sysm, tol)
    if ds_in is None:
        rec.ood(name); return
    ds_cv = _ds(conv, tol)
    rec.judged(name)
    no = int(ds_in.number)
    sohncke = no in sohncke_groups()
    if ds_cv is None or int(ds_cv.number) != no:
        rec.violation(name, "C05|group-changed", "independent symmetry search on the conventional system gives group %s, input has %d"
                      % (None if ds_cv is None else ds_cv.number, no), _wit(an, conv=describe(conv), group=no))
        return
    cp_std, cp_cv = cellpar(ds_in.std_lattice), cellpar(conv.get_cell().array)
    if np.abs(cp_std[:3] - cp_cv[:3]).max() > 1e-6 * cp_std[:3].max() or np.abs(cp_std[3:] - cp_cv[3:]).max() > 1e-5:
        rec.violation(name, "C05|lattice", "conventional cell %s is not the standardized lattice %s" % (cp_cv.round(6).tolist(), cp_std.round(6).tolist()),
                      _wit(an, conv=describe(conv), group=no))
    zi, zc = sysm.get_atomic_numbers(), conv.get_atomic_numbers()
    ci = {int(z): int(c) for z, c in zip(*np.unique(zi, return_counts=True))}
    cc = {int(z): int(c) for z, c in zip(*np.unique(zc, return_counts=True))}
    if set(ci) != set(cc) or any(ci[z] * len(zc) != cc[z] * len(zi) for z in ci):
        rec.violation(name, "C05|composition", "composition changed: input %s, conventional %s" % (ci, cc), _wit(an, conv=describe(conv), group=no))
        return
    rho_i, rho_c = len(zi) / sysm.get_volume(), len(zc) / conv.get_volume()
    if abs(rho_i - rho_c) > 1e-4 * rho_i:
        rec.violation(name, "C05|density", "atoms per volume changed: %r -> %r" % (rho_i, rho_c), _wit(an, conv=describe(conv), group=no))
    if len(ds_in.std_types) != len(zc):
        rec.violation(name, "C05|atom-count", "conventional system has %d atoms, standardized input has %d" % (len(zc), len(ds_in.std_types)),
                      _wit(an, conv=describe(conv), group=no))
        return
    dets, tried = congruence.congruence_dets(ds_in.std_lattice, ds_in.std_types, ds_in.std_positions, zc,
                                             conv.get_scaled_positions(), tol=max(tol, 1e-4))
    if 1 not in dets:
        kind = "mirror-image" if dets == {-1} else "not-congruent"
        rec.violation(name, "C05|%s|%s" % (kind, "sohncke" if sohncke else "achiral-group"),
                      "conventional system is %s of the standardized input (group %d, isometry determinants found: %s)"
                      % ("the MIRROR IMAGE" if kind == "mirror-image" else "not congruent to", no, sorted(dets)),
                      _wit(an, conv=describe(conv), group=no, best_transform=repr(getattr(an, "_best_transform", None))[:400]))
    rec.note("C05_sohncke" if sohncke else "C05_achiral")


# ----------------------------------------------------------------------------------------------- C07
def _frac_match(cell, x, cands, tol):
    d = cands - x
    d -= np.round(d)
    dist = np.linalg.norm(d @ cell, axis=1)
    k = int(np.argmin(dist))
    return k, float(dist[k])


def check_wyckoff_sets(rec, an, sets, name="wyckoff_sets_post"):
    """C07 on get_wyckoff_sets_conventional (either flavour)."""
    sysm, tol = input_of(an)
    if int(np.sum(sysm.get_pbc())) != 3:
        return
    if not once(an, "C07"):
        return
    rec.call(name)
    with core.suspend():
        conv = an.get_conventional_system()
        letters = an.get_wyckoff_letters_conventional()
        equiv = an.get_equivalent_atoms_conventional()
    n = len(conv)
    z = conv.get_atomic_numbers()
    sym = conv.get_chemical_symbols()
    frac = conv.get_scaled_positions()
    cell = conv.get_cell().array
    rec.judged(name)
    group = int(an.get_space_group_number())

    def viol(kind, what, **kw):
        rec.violation(name, "C07|%s" % kind, what, _wit(an, conv=describe(conv), group=group, **kw))

    allidx = [i for s in sets for i in s.indices]
    if sorted(allidx) != list(range(n)):
        viol("partition", "the sets' index lists do not partition the atoms of the conventional system"); return
    if len(letters) != n or len(equiv) != n:
        viol("per-atom-arrays", "letters / equivalent atoms do not have one entry per conventional atom"); return
    set_of = {}
    for k, s in enumerate(sets):
        for i in s.indices:
            set_of[i] = k
        if s.multiplicity != len(s.indices):
            viol("multiplicity", "set %s%s: multiplicity %r != size %d" % (s.element, s.wyckoff_letter, s.multiplicity, len(s.indices)))
        if any(sym[i] != s.element or int(z[i]) != int(s.atomic_number) for i in s.indices):
            viol("element", "set %s%s contains atoms of another element" % (s.element, s.wyckoff_letter))
        if any(str(letters[i]) != str(s.wyckoff_letter) for i in s.indices):
            viol("letter-per-atom", "per-atom letters differ from the set's letter %s" % s.wyckoff_letter)
    for i in range(n):
        for j in range(i + 1, n):
            if (equiv[i] == equiv[j]) != (set_of[i] == set_of[j]):
                viol("equivalence-classes", "equivalent-atom classes and Wyckoff sets disagree for atoms %d, %d" % (i, j)); break
        else:
            continue
        break
    # orbits under independently obtained operations of the conventional cell
    symm = spglib.get_symmetry((cell, frac, z), symprec=tol)
    if symm is None:
        rec.note("C07_spglib_no_symmetry"); return
    R = np.asarray(symm["rotations"] if isinstance(symm, dict) else symm.rotations)
    T = np.asarray(symm["translations"] if isinstance(symm, dict) else symm.translations)
    bad = False
    for k, s in enumerate(sets):
        idx = np.asarray(s.indices)
        pts = frac[idx]
        for i in idx:
            img = (R @ frac[i]) + T                     # (nops, 3)
            hit = set()
            for x in img:
                kk, d = _frac_match(cell, x, pts, tol)
                if d > 2 * tol + 1e-6:
                    viol("orbit-leaves-set", "an image of atom %d (set %s%s) under a space-group operation is not an atom of the set"
                         % (i, s.element, s.wyckoff_letter), atom=int(i))
                    bad = True; break
                hit.add(kk)
            if bad:
                break
            if len(hit) != len(idx):
                viol("orbit-smaller-than-set", "the orbit of atom %d has %d points, its set %s%s has %d atoms"
                     % (i, len(hit), s.element, s.wyckoff_letter, len(idx)), atom=int(i))
                bad = True; break
        if bad:
            break
    # letters against spglib's own assignment for the returned structure (controlled only for identity setting)
    ds = _ds(conv, tol)
    if ds is not None:
        P = np.asarray(ds.transformation_matrix); sft = np.asarray(ds.origin_shift)
        if np.abs(P - np.eye(3)).max() < 1e-6 and np.abs(sft - np.round(sft)).max() < 1e-6 and int(ds.number) == group:
            rec.call(name + ":letters"); rec.judged(name + ":letters")
            spl = list(ds.wyckoffs)
            if [str(l) for l in letters] != [str(l) for l in spl]:
                diff = [(i, str(letters[i]), str(spl[i])) for i in range(n) if str(letters[i]) != str(spl[i])][:6]
                viol("letters-vs-independent", "letters differ from the independent assignment for the returned structure "
                     "(atom, MatID, spglib): %s" % diff, best_transform=repr(getattr(an, "_best_transform", None))[:300])
        else:
            rec.call(name + ":letters"); rec.ood(name + ":letters"); rec.note("C07_letters_uncontrolled")


# ----------------------------------------------------------------------------------------------- C08
def check_parameters(rec, an, sets, name="wyckoff_parameters_post"):
    sysm, tol = input_of(an)
    if not once(an, "C08"):
        return
    rec.call(name)
    with core.suspend():
        conv = an.get_conventional_system()
        has_free = an.get_has_free_wyckoff_parameters()
    frac = conv.get_scaled_positions()
    cell = conv.get_cell().array
    group = int(an.get_space_group_number())
    npbc = int(np.sum(sysm.get_pbc()))
    rec.judged(name)
    any_param = False
    for s in sets:
        def viol(kind, what, **kw):
            rec.violation(name, "C08|%s" % kind, what, _wit(an, group=group, letter=s.wyckoff_letter, element=s.element,
                                                            x=repr(s.x), y=repr(s.y), z=repr(s.z), representative=list(s.representative), **kw))
        try:
            free = exprs.variables(s.representative)
        except ValueError:
            viol("representative-unparsable", "cannot parse representative %r" % (s.representative,)); continue
        vals = {"x": s.x, "y": s.y, "z": s.z}
        reported = {v for v in "xyz" if vals[v] is not None}
        if reported:
            any_param = True
        if reported != free:
            viol("wrong-variable-set", "free variables of %r are %s, reported %s" % (s.representative, sorted(free), sorted(reported))); continue
        if any(not (0.0 <= float(vals[v]) < 1.0) for v in reported):
            viol("out-of-range", "parameter outside [0,1): %s" % {v: vals[v] for v in reported}); continue
        p = np.array(exprs.evaluate(s.representative, {v: (vals[v] if vals[v] is not None else 0.0) for v in "xyz"}))
        cands = frac[np.asarray(s.indices)]
        if npbc == 2:
            # the 2D conventional cell was re-centred / minimised along the non-periodic axis (and that axis moved
            # last) after the analysis: only the in-plane components are comparable, for one of the three possible
            # positions of the non-periodic axis in the standard setting
            dist = np.inf
            for swap in (None, (0, 2), (1, 2)):
                q = p.copy()
                if swap:
                    q[list(swap)] = q[list(swap)[::-1]]
                d = cands[:, :2] - q[:2]
                d -= np.round(d)
                dist = min(dist, float(np.linalg.norm(d @ cell[:2], axis=1).min()))
        else:
            _, dist = _frac_match(cell, p, cands, tol)
        if dist > 2 * tol + 1e-6:
            viol("does-not-regenerate", "substituting the parameters into %r gives %s, %.4g A away from the nearest atom of the set"
                 % (s.representative, p.round(5).tolist(), dist), conv=describe(conv))
    if bool(has_free) != any_param:
        rec.violation(name, "C08|flag", "get_has_free_wyckoff_parameters()=%r but occupied sets %s a parameter" % (has_free, "carry" if any_param else "carry no"),
                      _wit(an, group=group))


# ----------------------------------------------------------------------------------------------- C15
def check_chirality(rec, an, flag, name="is_chiral_post"):
    sysm, tol = input_of(an)
    if int(np.sum(sysm.get_pbc())) != 3:
        return
    rec.call(name)
    with core.suspend():
        no = int(an.get_space_group_number())
    rec.judged(name)
    exp = no in sohncke_groups()
    if bool(flag) != exp or not isinstance(flag, (bool, np.bool_)):
        rec.violation(name, "C15|%s" % ("achiral-flagged-chiral" if flag else "chiral-flagged-achiral"),
                      "get_is_chiral()=%r for space group %d which %s a Sohncke group" % (flag, no, "is" if exp else "is not"),
                      _wit(an, group=no))


# ----------------------------------------------------------------------------------------------- C12
CENTRING_MULT = {"P": 1, "A": 2, "B": 2, "C": 2, "I": 2, "R": 3, "F": 4}


def check_primitive(rec, an, prim, name="primitive_system_post"):
    sysm, tol = input_of(an)
    if int(np.sum(sysm.get_pbc())) != 3:
        return
    if not once(an, "C12"):
        return
    rec.call(name)
    with core.suspend():
        conv = an.get_conventional_system()
        L = {"original": an.get_wyckoff_letters_original(), "primitive": an.get_wyckoff_letters_primitive(),
             "conventional": an.get_wyckoff_letters_conventional()}
        E = {"original": an.get_equivalent_atoms_original(), "primitive": an.get_equivalent_atoms_primitive(),
             "conventional": an.get_equivalent_atoms_conventional()}
        no = int(an.get_space_group_number())
    S = {"original": sysm, "primitive": prim, "conventional": conv}
    rec.judged(name)

    def viol(kind, what, **kw):
        rec.violation(name, "C12|%s" % kind, what, _wit(an, group=no, prim=describe(prim), conv=describe(conv), **kw))
    hist = {}
    for which, a in S.items():
        n = len(a)
        if len(L[which]) != n or len(E[which]) != n:
            viol("per-atom-arrays|%s" % which, "%s: letters/equivalence arrays have %d/%d entries for %d atoms" % (which, len(L[which]), len(E[which]), n)); return
        z = a.get_atomic_numbers()
        cls = {}
        for i in range(n):
            key = int(E[which][i])
            val = (int(z[i]), str(L[which][i]))
            if cls.setdefault(key, val) != val:
                viol("class-mixes|%s" % which, "%s: equivalent atoms differ in element or letter" % which); return
        h = {}
        for i in range(n):
            k = (str(L[which][i]), int(z[i]))
            h[k] = h.get(k, 0) + 1
        hist[which] = (h, n)
    h0, n0 = hist["conventional"]
    for which in ("original", "primitive"):
        h, n = hist[which]
        if set(h) != set(h0) or any(h[k] * n0 != h0[k] * n for k in h):
            viol("histogram|%s" % which, "(letter, element) counts of the %s system %s are not in the ratio of atom counts to the conventional ones %s"
                 % (which, {"%s%d" % k: v for k, v in h.items()}, {"%s%d" % k: v for k, v in h0.items()}))
    ds_in = _ds(sysm, tol)
    symbol = str(ds_in.international)
    m = CENTRING_MULT.get(symbol[0])
    nconv, nprim = len(conv), len(prim)
    if m is None:
        rec.note("C12_unknown_centring"); return
    rec.note("C12_centring_%s" % symbol[0])
    if nprim * m != nconv:
        viol("atom-count", "primitive has %d atoms, conventional %d, centring %s (multiplicity %d)" % (nprim, nconv, symbol[0], m))
    vp, vc = prim.get_volume(), conv.get_volume()
    if abs(vp * m - vc) > 1e-6 * vc:
        viol("volume", "primitive volume %r x %d != conventional volume %r" % (vp, m, vc))
    if abs(vp / max(nprim, 1) - sysm.get_volume() / len(sysm)) > 1e-4 * vp / max(nprim, 1):
        viol("volume-per-atom", "volume per atom differs from the input")
    dsp = _ds(prim, tol)
    if dsp is None or int(dsp.number) != no:
        viol("group", "space group of the primitive system is %s, input has %d" % (None if dsp is None else dsp.number, no))
    try:
        red = spglib.standardize_cell((prim.get_cell().array, prim.get_scaled_positions(), prim.get_atomic_numbers()),
                                      to_primitive=True, no_idealize=True, symprec=tol)
    except Exception:
        red = None
    if red is None or len(red[2]) != nprim:
        viol("not-primitive", "the primitive system is reducible: spglib finds a cell with %s atoms" % (None if red is None else len(red[2])))


def bind_all():
    """Attach the postconditions to the real SymmetryAnalyzer methods."""
    from matid.symmetry.symmetryanalyzer import SymmetryAnalyzer as SA
    if getattr(SA, "_verif_bound", False):
        return
    SA._verif_bound = True

    def post_conv(rec, snap, result, exc, self):
        if exc is None:
            check_conventional(rec, self, result)

    def post_sets(rec, snap, result, exc, self, return_parameters=True):
        if exc is not None:
            if return_parameters:
                rec.call("wyckoff_parameters_post"); rec.judged("wyckoff_parameters_post")
                no = None
                try:
                    no = int(self.get_space_group_number())
                except Exception:
                    pass
                import re
                mm = re.search(r"Wyckoff letter '(\w+)' in space group (\d+)", str(exc))
                cellkey = "|%s%s" % (mm.group(2), mm.group(1)) if mm else ""
                if int(np.sum(self._original_system.get_pbc())) == 2:
                    # mechanism key: 2D input, parameters solved on the re-centred / minimised cell
                    rec.violation("wyckoff_parameters_post", "C08|2D|exception|%s" % type(exc).__name__,
                                  "get_wyckoff_sets_conventional(True) raised %r for a 2D input" % (exc,), _wit(self, group=no))
                    return
                rec.violation("wyckoff_parameters_post", "C08|exception|%s%s" % (type(exc).__name__, cellkey),
                              "get_wyckoff_sets_conventional(True) raised %r" % (exc,), _wit(self, group=no))
            return
        check_wyckoff_sets(rec, self, result)
        if return_parameters:
            check_parameters(rec, self, result)

    def post_chiral(rec, snap, result, exc, self):
        if exc is None:
            check_chirality(rec, self, result)

    def post_prim(rec, snap, result, exc, self):
        if exc is None:
            check_primitive(rec, self, result)

    SA.get_conventional_system = core.observe(post_conv)(SA.get_conventional_system)
    SA.get_wyckoff_sets_conventional = core.observe(post_sets)(SA.get_wyckoff_sets_conventional)
    SA.get_is_chiral = core.observe(post_chiral)(SA.get_is_chiral)
    SA.get_primitive_system = core.observe(post_prim)(SA.get_primitive_system)
