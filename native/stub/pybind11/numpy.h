// Stand-in for the subset of <pybind11/numpy.h> that matid/ext/{geometry,celllist}.cpp use.
// pybind11 headers are not installed in this sandbox; this lets the *unmodified* translation
// units be rebuilt from the working tree (plain and ASan+UBSan builds) behind a C ABI.
// Semantics mirrored: array_t is a reference-counted handle to a C-contiguous buffer;
// unchecked<N>() / mutable_unchecked<N>() give raw, bounds-unchecked element access.
#ifndef VERIF_PYBIND11_NUMPY_STUB_H
#define VERIF_PYBIND11_NUMPY_STUB_H
// headers pybind11 pulls in transitively and the sources rely on
#include <cstddef>
#include <cstring>
#include <cmath>
#include <memory>
#include <vector>
#include <string>
#include <tuple>
#include <unordered_map>
#include <map>
#include <stdexcept>
#include <initializer_list>
#include <algorithm>
#include <sys/types.h>

namespace pybind11 {
typedef ::ssize_t ssize_t;

template <typename T, int N> class unchecked_ref {
public:
    T* data; ssize_t dims[4]; ssize_t strides[4];
    unchecked_ref(T* d, const std::vector<ssize_t>& shp) : data(d) {
        for (int i = 0; i < 4; ++i) { dims[i] = 0; strides[i] = 0; }
        ssize_t s = 1;
        for (int i = (int)shp.size() - 1; i >= 0; --i) { dims[i] = shp[i]; strides[i] = s; s *= shp[i]; }
    }
    ssize_t shape(int i) const { return dims[i]; }
    T& operator()(ssize_t i) const { return data[i * strides[0]]; }
    T& operator()(ssize_t i, ssize_t j) const { return data[i * strides[0] + j * strides[1]]; }
    T& operator()(ssize_t i, ssize_t j, ssize_t k) const { return data[i * strides[0] + j * strides[1] + k * strides[2]]; }
};

template <typename T> class array_t {
public:
    std::shared_ptr<T> owned;   // owning buffer (arrays created on the C++ side)
    T* ptr;                     // element pointer (owned.get() or borrowed from the caller)
    std::vector<ssize_t> shp;
    array_t() : ptr(nullptr) {}
    array_t(std::initializer_list<ssize_t> shape) : shp(shape) { alloc(); }
    // borrowed view on caller memory (used by the C ABI only)
    static array_t borrow(T* p, std::initializer_list<ssize_t> shape) {
        array_t a; a.ptr = p; a.shp = std::vector<ssize_t>(shape); return a;
    }
    ssize_t size() const { ssize_t s = 1; for (ssize_t d : shp) s *= d; return s; }
    ssize_t shape(int i) const { return shp[i]; }
    ssize_t ndim() const { return (ssize_t)shp.size(); }
    template <int N> unchecked_ref<const T, N> unchecked() const { return unchecked_ref<const T, N>(ptr, shp); }
    template <int N> unchecked_ref<T, N> mutable_unchecked() { return unchecked_ref<T, N>(ptr, shp); }
    const T* data() const { return ptr; }
    T* mutable_data() { return ptr; }
private:
    void alloc() {
        ssize_t n = size();
        if (n < 0) throw std::length_error("negative array size");
        // numpy raises MemoryError / ValueError for absurd sizes; emulate with bad_alloc
        owned = std::shared_ptr<T>(new T[(size_t)(n > 0 ? n : 1)], std::default_delete<T[]>());
        ptr = owned.get();
    }
};
} // namespace pybind11
#endif
