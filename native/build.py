"""Builds the repository's native sources (matid/ext/geometry.cpp, celllist.cpp) from the
working tree behind the C ABI of capi.cpp.  Two flavours:

  plain : g++ -std=c++11 -O3                 (setup.py's flags)
  san   : clang++ -O1 -g -fsanitize=address,undefined -fno-sanitize-recover=all

Output is cached under /verif/.cache/native/<sha256 of sources+stub+capi+flags>/ so that an edit to
any source triggers a rebuild and an unchanged tree costs nothing.
"""
import hashlib
import os
import subprocess
import sys
import fcntl
import shutil
import time

HERE = os.path.dirname(os.path.abspath(__file__))
VERIF = os.path.dirname(HERE)
CACHE = os.path.join(VERIF, ".cache", "native")
ASAN_RT = "/usr/lib/llvm-14/lib/clang/14.0.6/lib/linux/libclang_rt.asan-x86_64.so"

FLAVOURS = {
    "plain": ["g++", "-std=c++11", "-O3", "-fPIC", "-shared"],
    "san": ["clang++", "-std=c++11", "-O1", "-g", "-fPIC", "-shared", "-fno-omit-frame-pointer",
            "-fsanitize=address,undefined", "-fno-sanitize-recover=all", "-shared-libasan"],
}


def _sources(repo):
    ext = os.path.join(repo, "matid", "ext")
    return [os.path.join(ext, "geometry.cpp"), os.path.join(ext, "celllist.cpp"),
            os.path.join(ext, "geometry.h"), os.path.join(ext, "celllist.h")]


def _digest(repo, flavour):
    h = hashlib.sha256()
    files = _sources(repo) + [os.path.join(HERE, "capi.cpp"),
                              os.path.join(HERE, "stub", "pybind11", "numpy.h")]
    for f in files:
        with open(f, "rb") as fh:
            h.update(os.path.basename(f).encode() + b"\0" + fh.read() + b"\0")
    h.update(" ".join(FLAVOURS[flavour]).encode())
    return h.hexdigest()[:24]


def build(repo, flavour="plain"):
    """Returns the path of libmatidext.so for `repo`'s current sources, building if necessary."""
    dig = _digest(repo, flavour)
    outdir = os.path.join(CACHE, flavour + "-" + dig)
    lib = os.path.join(outdir, "libmatidext.so")
    if os.path.exists(lib):
        return lib
    os.makedirs(CACHE, exist_ok=True)
    lock = open(os.path.join(CACHE, ".lock"), "w")
    fcntl.flock(lock, fcntl.LOCK_EX)
    try:
        if os.path.exists(lib):
            return lib
        tmp = outdir + ".tmp%d" % os.getpid()
        shutil.rmtree(tmp, ignore_errors=True)
        os.makedirs(tmp)
        ext = os.path.join(repo, "matid", "ext")
        cmd = FLAVOURS[flavour] + [
            "-I", os.path.join(HERE, "stub"), "-I", ext,
            os.path.join(HERE, "capi.cpp"), os.path.join(ext, "geometry.cpp"),
            os.path.join(ext, "celllist.cpp"), "-o", os.path.join(tmp, "libmatidext.so")]
        r = subprocess.run(cmd, capture_output=True, text=True)
        if r.returncode != 0:
            shutil.rmtree(tmp, ignore_errors=True)
            raise RuntimeError("native build failed (%s):\n%s\n%s" % (flavour, " ".join(cmd), r.stderr[-4000:]))
        os.rename(tmp, outdir)
        # prune old entries of this flavour (keep the 6 most recent)
        entries = sorted((e for e in os.listdir(CACHE) if e.startswith(flavour + "-") and ".tmp" not in e),
                         key=lambda e: os.path.getmtime(os.path.join(CACHE, e)))
        for e in entries[:-6]:
            shutil.rmtree(os.path.join(CACHE, e), ignore_errors=True)
        return lib
    finally:
        fcntl.flock(lock, fcntl.LOCK_UN)
        lock.close()


def san_env(log_prefix):
    """Environment additions for a worker that loads the sanitized build."""
    return {
        "LD_PRELOAD": ASAN_RT,
        "ASAN_OPTIONS": "detect_leaks=0:halt_on_error=1:abort_on_error=1:allocator_may_return_null=1:"
                        "handle_segv=1:log_path=%s" % log_prefix,
        "UBSAN_OPTIONS": "print_stacktrace=1:halt_on_error=1:abort_on_error=1:log_path=%s" % log_prefix,
    }


if __name__ == "__main__":
    repo = os.environ.get("VERIF_REPO", "/repo")
    for fl in (sys.argv[1:] or ["plain", "san"]):
        t = time.time()
        print(fl, build(repo, fl), "%.1fs" % (time.time() - t))
