"""Fidelity of the ctypes adapter: the fresh build of the working tree's C++ sources must agree
bit-for-bit with the installed pybind11 binding on random calls of every entry point.  A disagreement
is a *note* (installed .so stale w.r.t. the sources, or sources edited), not a property violation."""
import json
import sys

import numpy as np


def compare(n=300, seed=0):
    from harness import env
    b = env.bootstrap("plain")
    new, old = b["ext"], b["installed"]
    out = {"installed_available": old is not None, "calls": 0, "mismatches": 0, "first_mismatch": None}
    if old is None:
        return out
    rng = np.random.default_rng(seed)

    def note(kind, args):
        out["mismatches"] += 1
        if out["first_mismatch"] is None:
            out["first_mismatch"] = {"entry": kind, "args": repr(args)[:600]}

    for it in range(n):
        na = int(rng.integers(1, 12))
        cell = rng.normal(size=(3, 3)) * rng.uniform(1, 6)
        cell += np.eye(3) * rng.uniform(2, 6)
        pbc = rng.integers(0, 2, size=3).astype(bool)
        pos = rng.random((na, 3)) @ cell
        num = rng.integers(1, 90, size=na)
        cutoff = float(rng.choice([0.0, 0.7, 1.5, 3.0, 5.0]))
        # extend_system
        a = old.extend_system(pos, num, cell, pbc, cutoff)
        c = new.extend_system(pos, num, cell, pbc, cutoff)
        out["calls"] += 1
        for f in ("positions", "atomic_numbers", "indices", "factors"):
            x, y = np.asarray(getattr(a, f)), np.asarray(getattr(c, f))
            if x.shape != y.shape or not np.array_equal(x, y):
                note("extend_system." + f, (pos, cell, pbc, cutoff))
        # displacement tensor
        cut = float(rng.choice([np.inf, 1.0, 2.5, 6.0]))
        res = []
        for m in (old, new):
            D = np.full((na, na, 3), np.inf); d = np.full((na, na), np.inf); F = np.full((na, na, 3), np.inf)
            m.get_displacement_tensor(D, d, F, pos, cell, pbc, cut, True, True)
            res.append((D, d, F))
        out["calls"] += 1
        for x, y in zip(*res):
            if not np.array_equal(x, y):
                note("get_displacement_tensor", (pos, cell, pbc, cut))
        # cell list queries
        ext, cq = float(rng.uniform(0.3, 3.0)), float(rng.uniform(0.3, 3.0))
        la, lb = old.get_cell_list(pos, cell, pbc, ext, cq), new.get_cell_list(pos, cell, pbc, ext, cq)
        for q in range(4):
            p = rng.random(3) @ cell
            ra, rb = la.get_neighbours_for_position(*p), lb.get_neighbours_for_position(*p)
            out["calls"] += 1
            for f in ("indices", "indices_original", "distances", "distances_squared", "displacements", "factors"):
                if list(getattr(ra, f)) != list(getattr(rb, f)):
                    note("neighbours." + f, (pos, cell, pbc, ext, cq, p))
    return out


if __name__ == "__main__":
    r = compare()
    print("adapter fidelity:", json.dumps(r))
    sys.exit(0)
