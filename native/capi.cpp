// C ABI around the repository's unmodified matid/ext/{geometry,celllist}.cpp (compiled with the
// pybind11 stand-in in native/stub).  Loaded through ctypes by native/adapter.py.
// Error protocol: functions return 0 on success, otherwise a code; matid_last_error() gives text.
//   1 = invalid_argument / length_error / out_of_range  -> ValueError
//   2 = bad_alloc                                        -> MemoryError
//   3 = anything else                                    -> RuntimeError
#define private public
#include "celllist.h"
#undef private
#include "geometry.h"
#include <cstring>
#include <new>
#include <limits>

namespace py = pybind11;
using namespace std;

static thread_local string g_err;

#define GUARD_BEGIN try {
#define GUARD_END \
    } catch (const bad_alloc& e) { g_err = string("bad_alloc: ") + e.what(); return 2; } \
      catch (const invalid_argument& e) { g_err = e.what(); return 1; } \
      catch (const length_error& e) { g_err = e.what(); return 1; } \
      catch (const out_of_range& e) { g_err = e.what(); return 1; } \
      catch (const exception& e) { g_err = e.what(); return 3; } \
      catch (...) { g_err = "unknown C++ exception"; return 3; } \
    return 0;

extern "C" {

const char* matid_last_error() { return g_err.c_str(); }

// ---------------------------------------------------------------- extend_system
int matid_extend_system(double* pos, int* numbers, long n, double* cell, bool* pbc, double cutoff,
                        void** out_handle, long* n_out) {
    GUARD_BEGIN
    auto p = py::array_t<double>::borrow(pos, {n, 3});
    auto z = py::array_t<int>::borrow(numbers, {n});
    auto c = py::array_t<double>::borrow(cell, {3, 3});
    auto b = py::array_t<bool>::borrow(pbc, {3});
    ExtendedSystem* es = new ExtendedSystem(extend_system(p, z, c, b, cutoff));
    *out_handle = es;
    *n_out = (long)es->indices.size();
    GUARD_END
}
void matid_extended_copy(void* h, double* pos, int* numbers, int* indices, double* factors) {
    ExtendedSystem* es = (ExtendedSystem*)h;
    long n = (long)es->indices.size();
    memcpy(pos, es->positions.data(), sizeof(double) * 3 * n);
    memcpy(numbers, es->atomic_numbers.data(), sizeof(int) * n);
    memcpy(indices, es->indices.data(), sizeof(int) * n);
    memcpy(factors, es->factors.data(), sizeof(double) * 3 * n);
}
void matid_extended_free(void* h) { delete (ExtendedSystem*)h; }

// ---------------------------------------------------------------- cell list
int matid_cell_list_new(double* pos, long n, double* cell, bool* pbc, double extension, double cutoff,
                        void** out_handle) {
    GUARD_BEGIN
    auto p = py::array_t<double>::borrow(pos, {n, 3});
    auto c = py::array_t<double>::borrow(cell, {3, 3});
    auto b = py::array_t<bool>::borrow(pbc, {3});
    CellList* cl = new CellList(get_cell_list(p, c, b, extension, cutoff));
    *out_handle = cl;
    GUARD_END
}
// direct constructor CellList(positions, indices, factors, cutoff) as exposed by ext.cpp
int matid_cell_list_ctor(double* pos, int* indices, double* factors, long n, double cutoff, void** out_handle) {
    GUARD_BEGIN
    // the constructor keeps `indices` (indices_py) alive: give it an owning copy
    py::array_t<double> p({n, 3});
    py::array_t<int> idx({n});
    py::array_t<double> f({n, 3});
    memcpy(p.mutable_data(), pos, sizeof(double) * 3 * n);
    memcpy(idx.mutable_data(), indices, sizeof(int) * n);
    memcpy(f.mutable_data(), factors, sizeof(double) * 3 * n);
    CellList* cl = new CellList(p, idx, f, cutoff);
    *out_handle = cl;
    GUARD_END
}
void matid_cell_list_free(void* h) { delete (CellList*)h; }

int matid_neighbours_for_position(void* h, double x, double y, double z, void** out_res, long* n_out) {
    GUARD_BEGIN
    CellList* cl = (CellList*)h;
    CellListResult* r = new CellListResult(cl->get_neighbours_for_position(x, y, z));
    *out_res = r; *n_out = (long)r->indices.size();
    GUARD_END
}
int matid_neighbours_for_index(void* h, int idx, void** out_res, long* n_out) {
    GUARD_BEGIN
    CellList* cl = (CellList*)h;
    CellListResult* r = new CellListResult(cl->get_neighbours_for_index(idx));
    *out_res = r; *n_out = (long)r->indices.size();
    GUARD_END
}
void matid_result_copy(void* h, int* indices, int* indices_original, double* distances,
                       double* distances_squared, double* displacements, double* factors) {
    CellListResult* r = (CellListResult*)h;
    size_t n = r->indices.size();
    for (size_t i = 0; i < n; ++i) {
        indices[i] = r->indices[i];
        indices_original[i] = r->indices_original[i];
        distances[i] = r->distances[i];
        distances_squared[i] = r->distances_squared[i];
        for (int k = 0; k < 3; ++k) {
            displacements[3 * i + k] = r->displacements[i][k];
            factors[3 * i + k] = r->factors[i][k];
        }
    }
}
void matid_result_free(void* h) { delete (CellListResult*)h; }

// Structural walk of the live CellList ("invariant at a hook").
// out[0]=n positions, out[1]=nx, out[2]=ny, out[3]=nz, out[4]=dx, out[5]=dy, out[6]=dz, out[7]=cutoff,
// out[8]=#positions found in bins (total), out[9]=#positions whose bin index (recomputed) is out of range,
// out[10]=#positions stored in a bin different from the recomputed one, out[11]=#bins allocated,
// out[12]=#stored indices out of [0,n)
int matid_cell_list_invariants(void* h, double* out) {
    GUARD_BEGIN
    CellList* cl = (CellList*)h;
    long n = (long)cl->positions.size();
    out[0] = n; out[1] = cl->nx; out[2] = cl->ny; out[3] = cl->nz;
    out[4] = cl->dx; out[5] = cl->dy; out[6] = cl->dz; out[7] = cl->cutoff;
    long stored = 0, badrange = 0, misplaced = 0, nbins = 0, badidx = 0;
    vector<int> seen(n > 0 ? n : 1, 0);
    for (size_t i = 0; i < cl->bins.size(); ++i)
        for (size_t j = 0; j < cl->bins[i].size(); ++j)
            for (size_t k = 0; k < cl->bins[i][j].size(); ++k) {
                ++nbins;
                for (int idx : cl->bins[i][j][k]) {
                    ++stored;
                    if (idx < 0 || idx >= n) { ++badidx; continue; }
                    seen[idx] += 1;
                    long bi = (long)((cl->positions[idx][0] - cl->xmin) / cl->dx);
                    long bj = (long)((cl->positions[idx][1] - cl->ymin) / cl->dy);
                    long bk = (long)((cl->positions[idx][2] - cl->zmin) / cl->dz);
                    if (bi != (long)i || bj != (long)j || bk != (long)k) ++misplaced;
                }
            }
    for (long idx = 0; idx < n; ++idx) {
        long bi = (long)((cl->positions[idx][0] - cl->xmin) / cl->dx);
        long bj = (long)((cl->positions[idx][1] - cl->ymin) / cl->dy);
        long bk = (long)((cl->positions[idx][2] - cl->zmin) / cl->dz);
        if (bi < 0 || bi >= cl->nx || bj < 0 || bj >= cl->ny || bk < 0 || bk >= cl->nz) ++badrange;
        if (seen[idx] != 1) ++misplaced;
    }
    out[8] = stored; out[9] = badrange; out[10] = misplaced; out[11] = nbins; out[12] = badidx;
    GUARD_END
}

// ---------------------------------------------------------------- displacement tensor
int matid_displacement_tensor(double* disp, double* dist, double* factors, double* pos, long n,
                              double* cell, bool* pbc, double cutoff, int return_factors, int return_distances) {
    GUARD_BEGIN
    auto d3 = py::array_t<double>::borrow(disp, {n, n, 3});
    auto d2 = py::array_t<double>::borrow(dist, {n, n});
    auto f3 = py::array_t<double>::borrow(factors, {n, n, 3});
    auto p = py::array_t<double>::borrow(pos, {n, 3});
    auto c = py::array_t<double>::borrow(cell, {3, 3});
    auto b = py::array_t<bool>::borrow(pbc, {3});
    get_displacement_tensor(d3, d2, f3, p, c, b, cutoff, return_factors != 0, return_distances != 0);
    GUARD_END
}

} // extern "C"
