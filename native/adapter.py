"""ctypes module with the same Python surface as `matid.ext`, backed by a fresh build of the
working tree's C++ sources (native/build.py).  `install(repo, flavour)` puts it in place of
`matid.ext` so that every Python-level workload exercises the current sources.
"""
import ctypes as C
import os
import sys
import types

import numpy as np

from . import build as _build

_dp = np.ctypeslib.ndpointer(dtype=np.float64, flags="C_CONTIGUOUS")
_ip = np.ctypeslib.ndpointer(dtype=np.int32, flags="C_CONTIGUOUS")
_bp = np.ctypeslib.ndpointer(dtype=np.bool_, flags="C_CONTIGUOUS")

_ERR = {1: ValueError, 2: MemoryError, 3: RuntimeError}


def _load(path):
    lib = C.CDLL(path)
    lib.matid_last_error.restype = C.c_char_p
    lib.matid_extend_system.argtypes = [_dp, _ip, C.c_long, _dp, _bp, C.c_double,
                                        C.POINTER(C.c_void_p), C.POINTER(C.c_long)]
    lib.matid_extended_copy.argtypes = [C.c_void_p, _dp, _ip, _ip, _dp]
    lib.matid_extended_copy.restype = None
    lib.matid_extended_free.argtypes = [C.c_void_p]
    lib.matid_extended_free.restype = None
    lib.matid_cell_list_new.argtypes = [_dp, C.c_long, _dp, _bp, C.c_double, C.c_double, C.POINTER(C.c_void_p)]
    lib.matid_cell_list_ctor.argtypes = [_dp, _ip, _dp, C.c_long, C.c_double, C.POINTER(C.c_void_p)]
    lib.matid_cell_list_free.argtypes = [C.c_void_p]
    lib.matid_cell_list_free.restype = None
    lib.matid_neighbours_for_position.argtypes = [C.c_void_p, C.c_double, C.c_double, C.c_double,
                                                  C.POINTER(C.c_void_p), C.POINTER(C.c_long)]
    lib.matid_neighbours_for_index.argtypes = [C.c_void_p, C.c_int, C.POINTER(C.c_void_p), C.POINTER(C.c_long)]
    lib.matid_result_copy.argtypes = [C.c_void_p, _ip, _ip, _dp, _dp, _dp, _dp]
    lib.matid_result_copy.restype = None
    lib.matid_result_free.argtypes = [C.c_void_p]
    lib.matid_result_free.restype = None
    lib.matid_cell_list_invariants.argtypes = [C.c_void_p, _dp]
    lib.matid_displacement_tensor.argtypes = [_dp, _dp, _dp, _dp, C.c_long, _dp, _bp, C.c_double, C.c_int, C.c_int]
    return lib


def _check(lib, code):
    if code:
        raise _ERR.get(code, RuntimeError)(lib.matid_last_error().decode("utf-8", "replace"))


def _f64(a, shape=None):
    a = np.ascontiguousarray(np.asarray(a, dtype=np.float64))
    if shape is not None and a.shape != shape:
        a = np.ascontiguousarray(a.reshape(shape))
    return a


def _pbc(p):
    a = np.ascontiguousarray(np.asarray(p, dtype=np.bool_))
    if a.shape != (3,):
        raise ValueError("pbc must have three entries")
    return a


def make_module(libpath, name="matid.ext"):
    lib = _load(libpath)
    mod = types.ModuleType(name)
    mod.__file__ = libpath
    mod._lib = lib
    mod._verif_adapter = True

    class ExtendedSystem(object):
        __slots__ = ("positions", "atomic_numbers", "indices", "factors")

    class CellListResult(object):
        __slots__ = ("indices", "indices_original", "distances", "distances_squared", "displacements", "factors")

    def _result(handle, n):
        try:
            idx = np.empty(n, np.int32); orig = np.empty(n, np.int32)
            d = np.empty(n, np.float64); d2 = np.empty(n, np.float64)
            disp = np.empty((n, 3), np.float64); fac = np.empty((n, 3), np.float64)
            lib.matid_result_copy(handle, idx, orig, d, d2, disp, fac)
        finally:
            lib.matid_result_free(handle)
        r = CellListResult()
        # pybind11's stl.h conversion returns Python lists
        r.indices = idx.tolist(); r.indices_original = orig.tolist()
        r.distances = d.tolist(); r.distances_squared = d2.tolist()
        r.displacements = disp.tolist(); r.factors = fac.tolist()
        return r

    class CellList(object):
        def __init__(self, positions=None, indices=None, factors=None, cutoff=None, _handle=None):
            if _handle is not None:
                self._h = _handle
                return
            pos = _f64(positions)
            if pos.ndim != 2 or pos.shape[1] != 3:
                raise ValueError("positions must be [n, 3]")
            n = pos.shape[0]
            idx = np.ascontiguousarray(np.asarray(indices, dtype=np.int32))
            fac = _f64(factors)
            h = C.c_void_p()
            _check(lib, lib.matid_cell_list_ctor(pos, idx, fac, n, float(cutoff), C.byref(h)))
            self._h = h

        def __del__(self):
            h = getattr(self, "_h", None)
            if h is not None and lib is not None:
                try:
                    lib.matid_cell_list_free(h)
                except Exception:
                    pass
                self._h = None

        def get_neighbours_for_position(self, x, y, z):
            r = C.c_void_p(); n = C.c_long()
            _check(lib, lib.matid_neighbours_for_position(self._h, float(x), float(y), float(z), C.byref(r), C.byref(n)))
            return _result(r, n.value)

        def get_neighbours_for_index(self, idx):
            r = C.c_void_p(); n = C.c_long()
            _check(lib, lib.matid_neighbours_for_index(self._h, int(idx), C.byref(r), C.byref(n)))
            return _result(r, n.value)

        def _invariants(self):
            out = np.zeros(16, np.float64)
            _check(lib, lib.matid_cell_list_invariants(self._h, out))
            keys = ["n", "nx", "ny", "nz", "dx", "dy", "dz", "cutoff", "stored", "bad_range", "misplaced",
                    "n_bins", "bad_index"]
            return dict(zip(keys, out[:13].tolist()))

    def extend_system(positions, atomic_numbers, cell, pbc, cutoff):
        pos = _f64(positions)
        if pos.ndim != 2 or pos.shape[1] != 3:
            raise ValueError("positions must be [n, 3]")
        n = pos.shape[0]
        num = np.ascontiguousarray(np.asarray(atomic_numbers, dtype=np.int32))
        h = C.c_void_p(); n_out = C.c_long()
        _check(lib, lib.matid_extend_system(pos, num, n, _f64(cell, (3, 3)), _pbc(pbc), float(cutoff),
                                            C.byref(h), C.byref(n_out)))
        try:
            m = n_out.value
            es = ExtendedSystem()
            es.positions = np.empty((m, 3), np.float64)
            es.atomic_numbers = np.empty(m, np.int32)
            es.indices = np.empty(m, np.int32)
            es.factors = np.empty((m, 3), np.float64)
            lib.matid_extended_copy(h, es.positions, es.atomic_numbers, es.indices, es.factors)
        finally:
            lib.matid_extended_free(h)
        return es

    def get_cell_list(positions, cell, pbc, extension, cutoff):
        pos = _f64(positions)
        if pos.ndim != 2 or pos.shape[1] != 3:
            raise ValueError("positions must be [n, 3]")
        h = C.c_void_p()
        _check(lib, lib.matid_cell_list_new(pos, pos.shape[0], _f64(cell, (3, 3)), _pbc(pbc), float(extension),
                                            float(cutoff), C.byref(h)))
        return CellList(_handle=h)

    def get_displacement_tensor(displacements, distances, factors, positions, cell, pbc, cutoff,
                                return_factors, return_distances):
        pos = _f64(positions)
        n = pos.shape[0]
        for a, shp in ((displacements, (n, n, 3)), (distances, (n, n)), (factors, (n, n, 3))):
            if not (isinstance(a, np.ndarray) and a.dtype == np.float64 and a.flags.c_contiguous and a.shape == shp):
                raise ValueError("output arrays must be C-contiguous float64 of matching shape")
        _check(lib, lib.matid_displacement_tensor(displacements, distances, factors, pos, n, _f64(cell, (3, 3)),
                                                  _pbc(pbc), float(cutoff), int(bool(return_factors)),
                                                  int(bool(return_distances))))

    mod.ExtendedSystem = ExtendedSystem
    mod.CellListResult = CellListResult
    mod.CellList = CellList
    mod.extend_system = extend_system
    mod.get_cell_list = get_cell_list
    mod.get_displacement_tensor = get_displacement_tensor
    return mod


def install(repo, flavour="plain"):
    """Build from `repo` and replace matid.ext by the adapter.  Returns (module, installed_module_or_None)."""
    libpath = _build.build(repo, flavour)
    import matid  # noqa
    try:
        import matid.ext as installed
        if getattr(installed, "_verif_adapter", False):
            installed = getattr(installed, "_installed", None)
    except Exception:
        installed = None
    mod = make_module(libpath)
    mod._installed = installed
    sys.modules["matid.ext"] = mod
    matid.ext = mod
    return mod, installed
