"""Worker process: python -m harness.worker <check module>.  Reads {"idx","case"} JSON lines on stdin,
answers one JSON line per case on a private copy of stdout (the code under test may print)."""
import faulthandler
import importlib
import json
import os
import sys
import time
import traceback


def _jsonable(o):
    import numpy as np
    if isinstance(o, dict):
        return {str(k): _jsonable(v) for k, v in o.items()}
    if isinstance(o, (list, tuple, set, frozenset)):
        return [_jsonable(v) for v in o]
    if isinstance(o, np.ndarray):
        return _jsonable(o.tolist())
    if isinstance(o, (np.integer,)):
        return int(o)
    if isinstance(o, (np.floating,)):
        return _jsonable(float(o))
    if isinstance(o, (np.bool_,)):
        return bool(o)
    if isinstance(o, float):
        if o != o:
            return "nan"
        if o in (float("inf"), float("-inf")):
            return "inf" if o > 0 else "-inf"
        return o
    if isinstance(o, (str, int, bool)) or o is None:
        return o
    return repr(o)


def main():
    out = os.fdopen(os.dup(1), "w")
    os.dup2(2, 1)
    sys.stdout = sys.stderr
    faulthandler.enable(all_threads=True)
    modname = sys.argv[1]
    from harness import env
    lane = os.environ.get("VERIF_LANE", "plain")
    boot_err = None
    mod = None
    try:
        env.bootstrap(lane)
        mod = importlib.import_module(modname)
        if hasattr(mod, "worker_init"):
            mod.worker_init(lane)
        try:
            from harness import reach
            reach.start(getattr(mod, "ID", ""))
        except Exception:
            reach = None
    except Exception:
        boot_err = traceback.format_exc()
    for line in sys.stdin:
        line = line.strip()
        if not line:
            continue
        msg = json.loads(line)
        if msg.get("quit"):
            break
        idx = msg["idx"]
        t0 = time.time()
        if boot_err is not None:
            res = {"idx": idx, "status": "exception", "result": {"traceback": boot_err, "type": "BootstrapError"}}
        else:
            try:
                r = mod.run_case(msg["case"])
                res = {"idx": idx, "status": "ok", "result": _jsonable(r)}
            except BaseException as e:  # harness errors (the code under test is caught inside run_case)
                if isinstance(e, KeyboardInterrupt):
                    raise
                res = {"idx": idx, "status": "exception",
                       "result": {"type": type(e).__name__, "msg": str(e)[:2000], "traceback": traceback.format_exc()[-6000:]}}
        res["cpu"] = time.time() - t0
        try:
            from harness import reach as _r
            res["reach"] = _r.drain()
        except Exception:
            pass
        out.write(json.dumps(res) + "\n")
        out.flush()


if __name__ == "__main__":
    main()
