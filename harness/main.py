"""Generic driver: workload -> monitors (in workers) -> offline checker -> verdict, evidence, replay."""
import fnmatch
import hashlib
import importlib
import json
import os
import shutil
import sys
import time

from . import env as _env
from . import pool as _pool

KNOWN = os.path.join(_env.VERIF, "known_findings.json")


def load_known(prop):
    try:
        with open(KNOWN) as fh:
            data = json.load(fh)
    except FileNotFoundError:
        return []
    return [f for f in data.get("findings", []) if f.get("property") == prop and f.get("status") == "open"]


def _merge_counts(dst, src):
    for k, v in (src or {}).items():
        if isinstance(v, dict):
            _merge_counts(dst.setdefault(k, {}), v)
        elif isinstance(v, (int, float)) and not isinstance(v, bool):
            dst[k] = dst.get(k, 0) + v
        else:
            dst.setdefault(k, v)


def _hist_add(h, classes):
    for dim, val in (classes or {}).items():
        vals = val if isinstance(val, list) else [val]
        d = h.setdefault(dim, {})
        for v in vals:
            d[str(v)] = d.get(str(v), 0) + 1


def write_replay(prop, case, violation, hashseed, lane):
    d = os.path.join(_env.VERIF, "replays", prop)
    os.makedirs(d, exist_ok=True)
    blob = {"property": prop, "case": case, "violation": violation, "hashseed": hashseed, "lane": lane,
            "repo": _env.REPO}
    s = json.dumps(blob, sort_keys=True)
    name = hashlib.sha256(s.encode()).hexdigest()[:16] + ".json"
    path = os.path.join(d, name)
    with open(path, "w") as fh:
        fh.write(s)
    return path


def run(mod, tier, seed, replay=None):
    t_start = time.time()
    prop = mod.ID
    _env.ensure_deps()
    run_dir = os.path.join(_env.RUNS, prop, tier if not replay else "replay")
    shutil.rmtree(run_dir, ignore_errors=True)
    os.makedirs(run_dir, exist_ok=True)

    if replay:
        with open(replay) as fh:
            blob = json.load(fh)
        cases = [blob["case"]]
        if blob.get("hashseed") in ("0", "1"):
            cases[0]["group"] = int(blob["hashseed"])
    else:
        cases = mod.gen_cases(tier, seed)
    pin = os.environ.get("VERIF_HASHGROUP")
    for i, c in enumerate(cases):
        c.setdefault("lane", "plain")
        c["idx"] = i
        if pin in ("0", "1") and "group" not in c:
            c["group"] = int(pin)          # experiment switch: run every unpinned case under one PYTHONHASHSEED

    budget = getattr(mod, "BUDGET_S", {"quick": 900, "thorough": 7200}).get(tier, 900)
    deadline = t_start + budget
    results = [None] * len(cases)
    lanes = []
    for c in cases:
        if c["lane"] not in lanes:
            lanes.append(c["lane"])
    # the lanes (installed binding / fresh build / sanitizer build) run side by side, sharing the worker budget
    import threading
    total_jobs = int(os.environ.get("VERIF_JOBS", "0")) or min(16, os.cpu_count() or 4)
    weights = {lane: sum(1 for c in cases if c["lane"] == lane) * (2.0 if lane == "san" else 1.0) for lane in lanes}
    wsum = sum(weights.values()) or 1.0

    def run_lane(lane):
        sub = [c for c in cases if c["lane"] == lane]
        jobs = total_jobs if len(lanes) == 1 else max(1, int(round(total_jobs * weights[lane] / wsum)))
        res = _pool.run_cases(mod.__name__, sub, lane=lane, jobs=jobs, case_timeout=getattr(mod, "CASE_TIMEOUT", 180),
                              run_dir=os.path.join(run_dir, lane), deadline=deadline,
                              progress=(500 if tier == "thorough" and lane == lanes[0] else None))
        for c, r in zip(sub, res):
            results[c["idx"]] = r

    threads = [threading.Thread(target=run_lane, args=(lane,)) for lane in lanes]
    for t in threads:
        t.start()
    for t in threads:
        t.join()

    # ---- offline checker over the recorded results
    monitors = {}
    hist = {}
    violations = []      # (case idx or None, violation dict)
    n_ok = n_crash = n_timeout = n_harness = n_skipped = n_discarded = n_exec = 0
    distinct = set()
    samples = []
    discards = {}
    stage = {}
    reach_hits = set()
    for c, r in zip(cases, results):
        for f_ln in (r.get("reach") or []):
            reach_hits.add((f_ln[0], int(f_ln[1])))
        st = r["status"]
        if st == "ok":
            n_ok += 1
            res = r["result"] or {}
            _merge_counts(monitors, res.get("monitors"))
            _merge_counts(stage, res.get("stage"))
            if res.get("discarded"):
                n_discarded += 1
                discards[res["discarded"]] = discards.get(res["discarded"], 0) + 1
            info = res.get("info") or {}
            _hist_add(hist, info.get("classes"))
            if info.get("nontrivial") and info.get("key") is not None:
                distinct.add(str(info["key"]))
            for k in info.get("keys") or []:
                distinct.add(str(k))
            n_exec += int(info.get("n_exec", 1))
            for v in res.get("violations") or []:
                violations.append((c["idx"], v))
            if len(samples) < 4 and not res.get("discarded") and res.get("sample") is not None:
                samples.append({"case": {k: v for k, v in c.items() if k not in ("idx",)},
                                "observed": res.get("sample")})
        elif st == "crash":
            n_crash += 1
            rep = r["result"] or {}
            key = mod.crash_key(c, rep) if hasattr(mod, "crash_key") else "crash|%s" % (rep.get("signal") or rep.get("returncode"))
            violations.append((c["idx"], {"monitor": "worker-crash", "key": key,
                                          "what": "worker process died while executing the case (%s)" % (rep.get("signal") or rep.get("returncode")),
                                          "witness": {"signal": rep.get("signal"), "returncode": rep.get("returncode"),
                                                      "stderr_tail": (rep.get("stderr_tail") or "")[-3000:],
                                                      "sanitizer_log": (rep.get("sanitizer_log") or "")[:8000]}}))
        elif st == "timeout":
            n_timeout += 1
        elif st == "skipped":
            n_skipped += 1
        else:
            n_harness += 1
            if n_harness <= 3:
                sys.stderr.write("HARNESS-ERROR case %d: %s\n" % (c["idx"], str((r.get("result") or {}).get("traceback", r.get("result")))[-1500:]))

    extra = {}
    if hasattr(mod, "offline") and not replay:
        off_v, off_extra = mod.offline(cases, results, tier)
        for idx, v in off_v:
            violations.append((idx, v))
        extra.update(off_extra or {})
        _merge_counts(monitors, (off_extra or {}).get("monitors"))
        for k in (off_extra or {}).get("distinct", []):
            distinct.add(str(k))

    # monitors of *other* properties that are bound in situ (e.g. the symmetry monitors inside the C04 workload) are
    # advisory here: their family preconditions (conditioning filters) are not established by this workload
    foreign = {}
    own = []
    for idx, v in violations:
        k = str(v.get("key", ""))
        if k.startswith(prop + "|"):
            own.append((idx, v))
        else:
            foreign[k] = foreign.get(k, 0) + 1
    violations = own

    known = load_known(prop)
    unlisted, listed_seen = [], {}
    for idx, v in violations:
        hit = None
        for f in known:
            if fnmatch.fnmatchcase(v.get("key", ""), f["key"]):
                hit = f
                break
        if hit is not None:
            listed_seen[hit["key"]] = listed_seen.get(hit["key"], 0) + 1
        else:
            unlisted.append((idx, v))

    # ---- floors -> inconclusive
    reasons = []
    floors = mod.floors(tier) if hasattr(mod, "floors") else {}
    if not replay:
        for mname, need in floors.items():
            got = (monitors.get(mname) or {}).get("judged", 0)
            if got < need:
                reasons.append("monitor %s judged %d < floor %d" % (mname, got, need))
        n_eval = n_ok
        if n_harness > max(2, 0.02 * len(cases)):
            reasons.append("%d harness errors" % n_harness)
        if (n_timeout + n_skipped) > 0.25 * max(1, len(cases)):
            reasons.append("%d timeouts, %d skipped of %d cases" % (n_timeout, n_skipped, len(cases)))
        if len(distinct) < 2:
            reasons.append("fewer than 2 distinct non-trivial cases")

    wall = time.time() - t_start
    # ---- evidence
    if not replay:
        cov = {
            "evaluations": int(n_exec + n_crash),
            "cases_run": int(n_ok + n_crash),
            "distinct_nontrivial": int(len(distinct)),
            "rule": mod.RULE,
            "samples": samples or [{"note": "no sample recorded"}],
            "monitors": monitors,
            "classes_seen": hist,
            "stage_recorders": stage,
            "cases_generated": len(cases),
            "discarded": {"total": n_discarded, "by_reason": discards},
            "inconclusive": {"timeouts": n_timeout, "skipped_after_budget": n_skipped, "harness_errors": n_harness},
            "crashes": n_crash,
            "known_findings_reobserved": listed_seen,
            "advisory_events_of_other_properties_monitors": foreign,
            "unlisted_violations": len(unlisted),
            "unlisted_violation_keys": sorted(set(str(v.get("key")) for _, v in unlisted))[:3000],
            "verdict": "violated" if unlisted else ("inconclusive" if reasons else "held"),
            "inconclusive_reasons": reasons,
            "repo": _env.REPO,
        }
        try:
            from . import reach as _reach
            cov["mechanism_reach"] = _reach.summarize(prop, sorted(reach_hits))
        except Exception as e:
            cov["mechanism_reach"] = "unavailable: %r" % (e,)
        if getattr(mod, "EXHAUSTIVE", False):
            cov["exhaustive"] = True
        cov.update({k: v for k, v in extra.items() if k not in ("monitors", "distinct")})
        ev = {"property_id": prop, "tier": tier, "seed": int(seed), "level": getattr(mod, "LEVEL", "exploration"),
              "coverage": cov, "assumptions": getattr(mod, "ASSUMPTIONS", []), "wall_s": round(wall, 2),
              "violations": len(unlisted)}
        # evidence/ only ever describes runs against /repo itself; mutant / seeded runs (VERIF_REPO=<scratch copy>)
        # write theirs under .runs/
        evdir = os.path.join(_env.VERIF, "evidence") if _env.REPO == "/repo" else os.path.join(_env.RUNS, "evidence_other_repo")
        os.makedirs(evdir, exist_ok=True)
        with open(os.path.join(evdir, prop + ".json"), "w") as fh:
            json.dump(ev, fh, indent=1, sort_keys=True)

    # ---- report
    print("%s %s seed=%s: cases=%d ok=%d discarded=%d crash=%d timeout=%d skipped=%d harness_err=%d distinct=%d wall=%.1fs"
          % (prop, tier, seed, len(cases), n_ok, n_discarded, n_crash, n_timeout, n_skipped, n_harness, len(distinct), wall))
    for mname in sorted(monitors):
        m = monitors[mname]
        if isinstance(m, dict) and "judged" in m:
            print("  monitor %-34s calls=%-8d judged=%-8d out_of_domain=%-7d violations=%d"
                  % (mname, m.get("calls", 0), m.get("judged", 0), m.get("ood", 0), m.get("viol", 0)))
    if foreign:
        print("  note: in-situ monitors of other properties recorded (advisory, outside their own input family): %s" % foreign)
    for f in known:
        print("KNOWN-FINDING: property=%s %s [%s; re-observed %d time(s) in this run]"
              % (prop, f["what"], f["key"], listed_seen.get(f["key"], 0)))
    if unlisted:
        seen_keys = {}
        for idx, v in unlisted:
            k = v.get("key", "?")
            seen_keys.setdefault(k, []).append((idx, v))
        for k, lst in list(seen_keys.items())[:12]:
            idx, v = lst[0]
            case = cases[idx] if idx is not None else {"offline": True}
            r = results[idx] if idx is not None else {}
            path = write_replay(prop, case, v, (r or {}).get("hashseed"), case.get("lane", "plain"))
            print("VIOLATION property=%s replay=%s" % (prop, path))
            print("  key=%s count=%d monitor=%s what=%s" % (k, len(lst), v.get("monitor"), str(v.get("what"))[:600]))
        rest = list(seen_keys.items())[12:]
        if rest:
            print("  ... %d further violation keys (no replay written): %s" % (len(rest), ", ".join("%s(x%d)" % (k, len(l)) for k, l in rest[:150])))
        return 1
    if reasons:
        print("INCONCLUSIVE property=%s reason=%s" % (prop, "; ".join(reasons)))
        return 2
    print("HELD property=%s on everything explored" % prop)
    return 0


def main(argv):
    if len(argv) < 2:
        print("usage: check <ID> quick|thorough [--replay FILE]")
        return 64
    prop = argv[0].upper()
    tier = argv[1] if argv[1] in ("quick", "thorough") else os.environ.get("VERIF_TIER", "quick")
    replay = None
    if "--replay" in argv:
        replay = argv[argv.index("--replay") + 1]
    seed = int(os.environ.get("VERIF_SEED", "0") or 0)
    mod = importlib.import_module("checks." + prop.lower())
    return run(mod, tier, seed, replay)


if __name__ == "__main__":
    sys.exit(main(sys.argv[1:]))
