"""Mechanism reach: which of the source lines named in a property's anchors (properties.jsonl, `mechanism[].where`)
the workload actually executed.  sys.monitoring LINE events with DISABLE after the first hit per location, so the
cost is paid once per line.  Anchors give line numbers of the pinned commit; they are mapped to the current working
tree through `git diff -U0 <root commit>` (lines deleted since then are dropped).  Only Python files can be traced;
C++ anchors are reported as native.  Purely informational: it never influences a verdict."""
import json
import os
import re
import subprocess
import sys

from . import env as _env

_TOOL = None
_hits = set()
_reported = set()
_ranges = {}          # abs filename -> set(lines)


def parse_where(where):
    """'matid/a.py:71-111;matid/b.py:5,9-12' -> [(relpath, [(71,111)]), (relpath, [(5,5),(9,12)])]"""
    out = []
    for part in where.split(";"):
        part = part.strip()
        m = re.match(r"^([\w./-]+):([\d,\- ]+)$", part)
        if not m:
            continue
        rngs = []
        for tok in m.group(2).split(","):
            tok = tok.strip()
            if not tok:
                continue
            if "-" in tok:
                a, b = tok.split("-")
                rngs.append((int(a), int(b)))
            else:
                rngs.append((int(tok), int(tok)))
        out.append((m.group(1), rngs))
    return out


def anchors(prop):
    with open(os.path.join(_env.VERIF, "properties.jsonl")) as fh:
        for line in fh:
            p = json.loads(line)
            if p["id"] == prop:
                return [(m.get("name", "?"), parse_where(m.get("where", ""))) for m in p["anchors"].get("mechanism", [])]
    return []


_linemap_cache = {}


def line_map(relpath):
    """old line -> new line for `relpath` between the root commit and the working tree of /repo (identity if git
    is unavailable, e.g. in a scratch copy)."""
    if relpath in _linemap_cache:
        return _linemap_cache[relpath]
    mapping = None
    try:
        root = subprocess.run(["git", "-C", _env.REPO, "rev-list", "--max-parents=0", "HEAD"], capture_output=True, text=True, timeout=20).stdout.split()[0]
        diff = subprocess.run(["git", "-C", _env.REPO, "diff", "-U0", root, "--", relpath], capture_output=True, text=True, timeout=60).stdout
        hunks = []
        for m in re.finditer(r"^@@ -(\d+)(?:,(\d+))? \+(\d+)(?:,(\d+))? @@", diff, re.M):
            a, na, b, nb = int(m.group(1)), int(m.group(2) or 1), int(m.group(3)), int(m.group(4) or 1)
            hunks.append((a, na, b, nb))

        def f(old):
            shift = 0
            for a, na, b, nb in hunks:
                if na == 0:                 # pure insertion after old line a
                    if old > a:
                        shift += nb
                    continue
                if old < a:
                    break
                if a <= old < a + na:
                    return None             # line was changed / deleted
                shift += nb - na
            return old + shift
        mapping = f
    except Exception:
        mapping = None
    _linemap_cache[relpath] = mapping or (lambda old: old)
    return _linemap_cache[relpath]


def executable_lines(path):
    try:
        with open(path) as fh:
            code = compile(fh.read(), path, "exec")
    except Exception:
        return set()
    lines = set()
    stack = [code]
    while stack:
        c = stack.pop()
        for _, _, ln in c.co_lines():
            if ln:
                lines.add(ln)
        for k in c.co_consts:
            if hasattr(k, "co_lines"):
                stack.append(k)
    return lines


def plan(prop):
    """[(mechanism, relpath, kind, mapped executable lines)]"""
    out = []
    for name, parts in anchors(prop):
        for relpath, rngs in parts:
            if not relpath.endswith(".py"):
                out.append((name, relpath, "native", []))
                continue
            path = os.path.join(_env.REPO, relpath)
            lm = line_map(relpath)
            ex = executable_lines(path)
            lines = set()
            for a, b in rngs:
                for old in range(a, b + 1):
                    new = lm(old)
                    if new is not None and new in ex:
                        lines.add(new)
            out.append((name, relpath, "python", sorted(lines)))
    return out


def start(prop):
    """Worker side: begin recording hits on the anchored lines."""
    global _TOOL
    if not hasattr(sys, "monitoring") or _TOOL is not None:
        return
    for name, relpath, kind, lines in plan(prop):
        if kind == "python" and lines:
            _ranges.setdefault(os.path.join(_env.REPO, relpath), set()).update(lines)
    if not _ranges:
        return
    mon = sys.monitoring
    _TOOL = mon.COVERAGE_ID
    try:
        mon.use_tool_id(_TOOL, "verif-reach")
    except ValueError:
        _TOOL = None
        return

    def on_line(code, line):
        s = _ranges.get(code.co_filename)
        if s is not None and line in s:
            _hits.add((code.co_filename, line))
        return mon.DISABLE
    mon.register_callback(_TOOL, mon.events.LINE, on_line)
    mon.set_events(_TOOL, mon.events.LINE)


def drain():
    """New hits since the last call, as [relpath, line] pairs."""
    new = _hits - _reported
    _reported.update(new)
    return [[os.path.relpath(f, _env.REPO), ln] for f, ln in sorted(new)]


def summarize(prop, hits):
    hitset = set((f, int(ln)) for f, ln in hits)
    out = []
    for name, relpath, kind, lines in plan(prop):
        if kind == "native":
            out.append({"mechanism": name, "file": relpath, "kind": "native (C++: not line-traced; exercised through the rebuilt extension)"})
        else:
            got = sum(1 for ln in lines if (relpath, ln) in hitset)
            out.append({"mechanism": name, "file": relpath, "anchored_executable_lines": len(lines), "executed": got})
    return out
