"""Paths, dependency bootstrap and worker-side initialisation shared by every check."""
import fcntl
import glob
import importlib.machinery
import importlib.util
import os
import subprocess
import sys

VERIF = os.path.dirname(os.path.dirname(os.path.abspath(__file__)))
REPO = os.path.abspath(os.environ.get("VERIF_REPO", "/repo"))
PY = "/venv/bin/python"
DEPS = os.path.join(VERIF, ".deps")
WHEELS = "/opt/veriftools/wheels"
RUNS = os.path.join(VERIF, ".runs")
GUARD = "MATID_VERIF"


def ensure_deps():
    """icontract (+asttokens, six, typing_extensions) beside the repository's interpreter, offline."""
    marker = os.path.join(DEPS, "icontract", "__init__.py")
    if os.path.exists(marker):
        return DEPS
    os.makedirs(VERIF, exist_ok=True)
    lock = open(os.path.join(VERIF, ".deps.lock"), "w")
    fcntl.flock(lock, fcntl.LOCK_EX)
    try:
        if not os.path.exists(marker):
            env = dict(os.environ, PIP_NO_INDEX="1", PIP_DISABLE_PIP_VERSION_CHECK="1")
            r = subprocess.run([PY, "-m", "pip", "install", "--quiet", "--no-index", "--find-links", WHEELS,
                                "--target", DEPS, "icontract"], capture_output=True, text=True, env=env)
            if r.returncode != 0:
                raise RuntimeError("cannot install icontract offline:\n" + r.stdout + r.stderr)
    finally:
        fcntl.flock(lock, fcntl.LOCK_UN)
        lock.close()
    return DEPS


def worker_env(extra=None, hashseed="0"):
    env = dict(os.environ)
    for k in ("OMP_NUM_THREADS", "OPENBLAS_NUM_THREADS", "MKL_NUM_THREADS", "NUMEXPR_NUM_THREADS"):
        env[k] = "1"
    env["PYTHONDONTWRITEBYTECODE"] = "1"
    env["PYTHONHASHSEED"] = str(hashseed)
    env["PYTHONFAULTHANDLER"] = "1"
    env[GUARD] = "1"
    env["VERIF_REPO"] = REPO
    env["PYTHONPATH"] = os.pathsep.join([VERIF, DEPS])
    env["PYTHONWARNINGS"] = "ignore"
    if extra:
        env.update(extra)
    return env


_boot = {}


def bootstrap(lane="plain"):
    """Worker side.  Puts $VERIF_REPO first on sys.path (the editable-install finder comes after
    PathFinder, so a scratch copy can be selected) and, for lanes 'plain'/'san', replaces matid.ext by
    a fresh build of the working tree's C++ sources.  lane 'installed' keeps the prebuilt binding.
    Returns dict(matid=module, ext=adapter-or-installed, installed=installed-binding-or-None, lane=...).
    """
    if _boot:
        return _boot
    if REPO not in sys.path[:1]:
        sys.path.insert(0, REPO)
    if DEPS not in sys.path:
        sys.path.append(DEPS)
    installed = None
    cands = glob.glob(os.path.join(REPO, "matid", "ext.cpython-*.so"))
    adapter = None
    if lane in ("plain", "san"):
        from native import adapter as _ad
        from native import build as _b
        adapter = _ad.make_module(_b.build(REPO, lane))
        sys.modules["matid.ext"] = adapter
    import matid  # noqa: E402
    assert os.path.abspath(os.path.dirname(matid.__file__)) == os.path.join(REPO, "matid"), \
        "matid imported from %s, expected %s" % (matid.__file__, REPO)
    if adapter is not None:
        matid.ext = adapter
        if cands and lane == "plain":
            try:
                loader = importlib.machinery.ExtensionFileLoader("matid.ext", cands[0])
                spec = importlib.util.spec_from_loader("matid.ext", loader, origin=cands[0])
                installed = importlib.util.module_from_spec(spec)
                loader.exec_module(installed)
            except Exception:
                installed = None
        adapter._installed = installed
        ext = adapter
    else:
        import matid.ext as ext  # noqa
        installed = ext
    _boot.update(matid=matid, ext=ext, installed=installed, lane=lane)
    return _boot
