"""Supervisor / worker pool.

Persistent worker processes (subprocess.Popen, JSON lines over pipes - not multiprocessing.Pool, which
hangs when a child dies).  One case = one message.  The supervisor knows the in-flight case of every
worker, so a dying worker (SIGSEGV, sanitizer abort) is attributed to exactly one case, the worker is
restarted and the run goes on.  A per-case wall-clock watchdog turns a stuck case into `timeout`
(judged inconclusive by the caller, never a violation).
"""
import glob
import json
import os
import queue
import select
import signal
import subprocess
import sys
import threading
import time

from . import env as _env


class Worker(object):
    def __init__(self, wid, check_module, lane, hashseed, run_dir):
        self.wid = wid
        self.check_module = check_module
        self.lane = lane
        self.hashseed = hashseed
        self.run_dir = run_dir
        self.proc = None
        self.generation = 0
        self.start()

    def start(self):
        self.generation += 1
        tag = "w%02d.%d" % (self.wid, self.generation)
        self.errpath = os.path.join(self.run_dir, tag + ".stderr")
        self.sanprefix = os.path.join(self.run_dir, tag + ".san")
        extra = {"VERIF_LANE": self.lane, "VERIF_WORKER_TAG": tag}
        if self.lane == "san":
            from native import build as _b
            extra.update(_b.san_env(self.sanprefix))
        self.errfile = open(self.errpath, "wb")
        self.proc = subprocess.Popen(
            [_env.PY, "-u", "-m", "harness.worker", self.check_module],
            stdin=subprocess.PIPE, stdout=subprocess.PIPE, stderr=self.errfile,
            cwd=_env.VERIF, env=_env.worker_env(extra, self.hashseed), bufsize=0)
        self.buf = b""

    def send(self, msg):
        data = (json.dumps(msg) + "\n").encode()
        self.proc.stdin.write(data)
        self.proc.stdin.flush()

    def recv(self, timeout):
        """Returns (status, obj): status in {'ok','dead','timeout'}."""
        deadline = time.time() + timeout
        fd = self.proc.stdout.fileno()
        while True:
            nl = self.buf.find(b"\n")
            if nl >= 0:
                line, self.buf = self.buf[:nl], self.buf[nl + 1:]
                try:
                    return "ok", json.loads(line.decode())
                except Exception:
                    continue
            remaining = deadline - time.time()
            if remaining <= 0:
                return "timeout", None
            r, _, _ = select.select([fd], [], [], min(remaining, 1.0))
            if r:
                chunk = os.read(fd, 1 << 20)
                if not chunk:
                    return "dead", None
                self.buf += chunk
            elif self.proc.poll() is not None:
                # drain
                chunk = os.read(fd, 1 << 20)
                if chunk:
                    self.buf += chunk
                    continue
                return "dead", None

    def kill(self):
        try:
            self.proc.kill()
        except Exception:
            pass
        try:
            self.proc.wait(timeout=10)
        except Exception:
            pass
        for f in (self.proc.stdin, self.proc.stdout):
            try:
                f.close()
            except Exception:
                pass
        try:
            self.errfile.close()
        except Exception:
            pass

    def crash_report(self):
        rc = self.proc.poll()
        try:
            self.errfile.flush()
        except Exception:
            pass
        tail = ""
        try:
            with open(self.errpath, "rb") as fh:
                data = fh.read()
                tail = data[-6000:].decode("utf-8", "replace")
        except Exception:
            pass
        san = ""
        for p in sorted(glob.glob(self.sanprefix + ".*")):
            try:
                with open(p, "rb") as fh:
                    data = fh.read().decode("utf-8", "replace")
                    san += data if len(data) <= 7000 else data[:4000] + "\n...[cut]...\n" + data[-3000:]
            except Exception:
                pass
        sig = None
        if rc is not None and rc < 0:
            try:
                sig = signal.Signals(-rc).name
            except Exception:
                sig = str(-rc)
        return {"returncode": rc, "signal": sig, "stderr_tail": tail, "sanitizer_log": san}


def run_cases(check_module, cases, lane="plain", jobs=None, case_timeout=180, run_dir=None,
              hashseeds=("0", "1"), progress=None, deadline=None):
    """cases: list of JSON-able dicts; optional key 'group' (0/1) pins the case to workers with
    PYTHONHASHSEED hashseeds[group].  Returns list of results aligned with cases; each result is
    {'status': 'ok'|'exception'|'crash'|'timeout'|'skipped', 'result': ..., 'wall': s, 'hashseed': ...}.
    """
    jobs = jobs or int(os.environ.get("VERIF_JOBS", "0")) or min(16, os.cpu_count() or 4)
    jobs = max(1, min(jobs, len(cases)))
    run_dir = run_dir or os.path.join(_env.RUNS, "adhoc")
    os.makedirs(run_dir, exist_ok=True)
    results = [None] * len(cases)
    qs = {0: queue.Queue(), 1: queue.Queue(), None: queue.Queue()}
    for i, c in enumerate(cases):
        g = c.get("group")
        qs[g if g in (0, 1) else None].put(i)
    lock = threading.Lock()
    done = [0]

    def take(group):
        for q in (qs[group], qs[None]):
            try:
                return q.get_nowait()
            except queue.Empty:
                pass
        # help the other group only when it has no workers of its own
        if jobs == 1:
            try:
                return qs[1 - group].get_nowait()
            except queue.Empty:
                pass
        return None

    def loop(wid):
        group = wid % 2
        w = Worker(wid, check_module, lane, hashseeds[group], run_dir)
        try:
            while True:
                if deadline is not None and time.time() > deadline:
                    while True:
                        i = take(group)
                        if i is None:
                            break
                        results[i] = {"status": "skipped", "result": None, "wall": 0.0, "hashseed": w.hashseed}
                    break
                i = take(group)
                if i is None:
                    break
                t0 = time.time()
                try:
                    w.send({"idx": i, "case": cases[i]})
                    st, obj = w.recv(cases[i].get("timeout", case_timeout))
                except (BrokenPipeError, OSError):
                    st, obj = "dead", None
                wall = time.time() - t0
                if st == "ok":
                    obj["wall"] = wall
                    obj["hashseed"] = w.hashseed
                    results[i] = obj
                elif st == "dead":
                    time.sleep(0.2)
                    rep = w.crash_report()
                    results[i] = {"status": "crash", "result": rep, "wall": wall, "hashseed": w.hashseed}
                    w.kill()
                    w.start()
                else:
                    w.kill()
                    results[i] = {"status": "timeout", "result": None, "wall": wall, "hashseed": w.hashseed}
                    w.start()
                with lock:
                    done[0] += 1
                    if progress and done[0] % progress == 0:
                        sys.stderr.write("  .. %d/%d cases\n" % (done[0], len(cases)))
        finally:
            try:
                w.send({"quit": True})
            except Exception:
                pass
            try:
                w.proc.wait(timeout=5)
            except Exception:
                pass
            w.kill()

    threads = [threading.Thread(target=loop, args=(k,), daemon=True) for k in range(jobs)]
    for t in threads:
        t.start()
    for t in threads:
        t.join()
    for i, r in enumerate(results):
        if r is None:
            results[i] = {"status": "skipped", "result": None, "wall": 0.0, "hashseed": None}
    return results
