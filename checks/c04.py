"""C04 - a cluster's prototype cell identifies the material it was cut from.

Case rule: A = SymmetryAnalyzer(cluster.get_cell(), tol) vs B = SymmetryAnalyzer(source unit cell, tol) must agree
in material id, space group and Wyckoff occupation; the cell is periodic in 3 directions for bulk / slab sources and
in exactly 2 for monolayers and holds a whole number of formula units.  Cases where SBC does not return one
complete cluster are C02's business and are counted, not judged.  The symmetry monitors (C05/C07...) are bound in
situ on both analyses."""
from math import gcd
from functools import reduce

import numpy as np

from checks import sbcfam
from gen import slabs, structures
from monitors import core, pipeline, sym
from harness import main as hmain

ID = "C04"
LEVEL = "exploration"
RULE = ("enumerated cells: the C02 single-crystal universe with noise in {0, 0.02} plus graphene / h-BN / 2H- and 1T-MX2 "
        "monolayer supercells (5x5, 6x6; pbc TTT/TTF; noise 0 / 0.02); presentation (rotation, translation, permutation, SBC "
        "seed) from the cell's pool; symmetry tolerance 0.1 A for unperturbed and 0.5 A for rattled inputs. Cells failing "
        "the bonding precondition are discarded; cases without exactly one complete cluster are counted (C02 decides them). "
        "distinct = cell keys judged")
ASSUMPTIONS = ["ASE builders", "source unit cell = ASE primitive/conventional cell of the material analysed by the same SymmetryAnalyzer at the same tolerance",
               "default SBC parameters"]
CASE_TIMEOUT = 900
BUDGET_S = {"quick": 900, "thorough": 3400}
NAME = "prototype_cell_rule"


def worker_init(lane):
    sbcfam.worker_init(lane)
    sym.bind_all()


def floors(tier):
    return {NAME: 50 if tier == "quick" else 700}


def gen_cases(tier, seed):
    universe = slabs.c04_cells()
    sc = seed % 4
    if tier == "thorough":
        chosen = universe
    else:
        rng = np.random.default_rng([seed, 4])
        chosen = [universe[i] for i in rng.choice(len(universe), size=150, replace=False)]
        # stratum: compounds with three or more atoms per primitive cell (several sublattices: the prototype cell is
        # assembled from more than one basis-atom graph and regions may have to be merged)
        have = {c["key"] for c in chosen}
        multi = [c for c in universe if c["key"] not in have and
                 slabs.COMPOUNDS.get(c["material"], ("",))[0] in ("perovskite", "rutile", "fluorite", "antifluorite", "wurtzite")]
        chosen += [multi[i] for i in rng.choice(len(multi), size=min(70, len(multi)), replace=False)]
        mono = [c for c in universe if c["kind"] == "monolayer"]
        chosen += [mono[i] for i in rng.choice(len(mono), size=8, replace=False)]
        listed = {f["key"].split("|", 1)[1] for f in hmain.load_known(ID) if f["key"].startswith("C04|")}
        have = {c["key"] for c in chosen}
        extra = [c for c in universe if c["key"] in listed and c["key"] not in have]
        if len(extra) > 8:           # re-observe a sample of the listed cells
            extra = [extra[i] for i in rng.choice(len(extra), size=8, replace=False)]
        chosen += extra
    return [{"cell": c, "seed_class": sc, "k": 0} for c in chosen]


def analysis(atoms, tol):
    import matid
    an = matid.SymmetryAnalyzer(atoms, symmetry_tol=tol)
    return {"material_id": an.get_material_id(), "number": int(an.get_space_group_number()),
            "sets": sorted((s.wyckoff_letter, s.element, int(s.multiplicity)) for s in an.get_wyckoff_sets_conventional(False))}


def reduced_formula(numbers):
    vals, counts = np.unique(numbers, return_counts=True)
    g = reduce(gcd, [int(c) for c in counts])
    return {int(z): int(c) // g for z, c in zip(vals, counts)}


def run_case(case):
    import matid
    cell = case["cell"]
    rec = core.Recorder()
    info0 = {"nontrivial": False, "classes": {}}
    try:
        if cell["kind"] == "monolayer":
            base, source = slabs.make_monolayer(cell["material"], cell["n"], cell["pbc_z"])
            prim, proto, want_pbc = source, "monolayer", 2
        else:
            base, prim, proto, dim = slabs.build_c02(cell)
            source, want_pbc = prim, 3
    except Exception as e:
        out = rec.export(); out["discarded"] = "builder:%s" % type(e).__name__; out["info"] = info0
        return out
    if cell["kind"] != "monolayer" and not slabs.primitive_ok(prim):
        out = rec.export(); out["discarded"] = "primitive_cell_too_large"; out["info"] = info0
        return out
    if len(base) > 700:
        out = rec.export(); out["discarded"] = "too_many_atoms"; out["info"] = info0
        return out
    rng = np.random.default_rng(slabs.stable_seed(cell["key"], case["seed_class"], case["k"]))
    atoms, _ = slabs.present(base, rng, noise=cell["noise"])
    # decorations that must not matter (own random stream: the presentation itself is unchanged)
    drng = np.random.default_rng(slabs.stable_seed(cell["key"], case["seed_class"], 977))
    decorations = structures.decorate(atoms, drng) if drng.random() < 0.35 else []
    ok, why = slabs.bonding_precondition(atoms)
    if not ok:
        out = rec.export(); out["discarded"] = "precondition:%s" % why; out["info"] = info0
        return out
    tol = 0.1 if cell["noise"] == 0 else 0.5
    sbc_seed = int(rng.integers(0, 1000))
    core.set_recorder(rec)
    obs = {}
    try:
        rec.call(NAME)
        try:
            clusters = matid.SBC().get_clusters(atoms, seed=sbc_seed)
        except Exception as e:
            clusters = []
        if len(clusters) != 1 or len(clusters[0].indices) != len(atoms):
            rec.ood(NAME); rec.note("C04_no_single_complete_cluster")
        else:
            wit = {"input": pipeline.describe(atoms), "cell": cell, "sbc_seed": sbc_seed, "seed_class": case["seed_class"], "tol": tol}
            pc = clusters[0].get_cell()
            wit["prototype_cell"] = pipeline.describe(pc)
            rec.judged(NAME)
            npbc = int(np.sum(pc.get_pbc()))
            obs["prototype_pbc"] = npbc
            obs["prototype_natoms"] = len(pc)
            if npbc != want_pbc:
                rec.violation(NAME, "C04|%s" % cell["key"], "%s: prototype cell periodic in %d directions, expected %d" % (cell["key"], npbc, want_pbc), wit)
            rf = reduced_formula(source.get_atomic_numbers())
            vals, counts = np.unique(pc.get_atomic_numbers(), return_counts=True)
            cc = {int(z): int(c) for z, c in zip(vals, counts)}
            mult = set((cc.get(z, 0) / rf[z]) for z in rf)
            if set(cc) != set(rf) or len(mult) != 1 or abs(next(iter(mult)) - round(next(iter(mult)))) > 1e-9:
                rec.violation(NAME, "C04|%s" % cell["key"], "%s: prototype cell composition %s is not a whole number of formula units %s" % (cell["key"], cc, rf), wit)
            try:
                A = analysis(pc, tol)
                B = analysis(source, tol)
                obs["cluster_cell"], obs["source"] = A, B
                diffs = [k for k in ("material_id", "number", "sets") if A[k] != B[k]]
                if diffs:
                    rec.violation(NAME, "C04|%s" % cell["key"], "%s: analysis of the prototype cell differs from the source crystal in %s: %r vs %r"
                                  % (cell["key"], diffs, {k: A[k] for k in diffs}, {k: B[k] for k in diffs}), wit)
            except Exception as e:
                rec.violation(NAME, "C04|%s" % cell["key"], "%s: symmetry analysis raised %r" % (cell["key"], e), wit)
    finally:
        core.set_recorder(None)
    out = rec.export()
    out["info"] = {"key": cell["key"], "nontrivial": rec.counter(NAME)["judged"] > 0,
                   "classes": {"decorated": bool(decorations), "prototype": proto, "kind": cell["kind"], "noise": cell["noise"], "tol": tol}}
    out["sample"] = {"cell": cell["key"], "natoms": len(atoms), "observed": obs}
    return out
