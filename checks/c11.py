"""C11 - 2D materials get a vacuum-, orientation- and labelling-independent normal form.

Monitors: postcondition on the 2D conventional system (pbc, containment, thickness rule) evaluated on every
analysis, and an offline relational checker over the presentations of one sheet (vacuum 0.6-2.0, all 6 axis
relabellings, in-plane supercells, SO(3) rotations incl. flips, translations, permutations) recorded in workers
with different PYTHONHASHSEED; the 2D id must differ from the id of the same cell treated as a 3D crystal."""
import numpy as np

from gen import layers2d
from monitors import core, sym

ID = "C11"
LEVEL = "exploration"
RULE = ("sheets generated in 38 symmorphic layer-compatible space groups (oblique/rectangular/centred/square/hexagonal "
        "lattices, 1-3 orbits, flat or buckled <= 3 A) plus graphene, h-BN, 2H/1T MX2; each analysed as generated and in "
        "re-presentations; min_2d_thickness in {0.5, 1, 3}. Samples whose analysed cell is not symmetry-stable over a "
        "100x tolerance window are discarded and counted. distinct = (source/layer group, n atoms, presentation class)")
ASSUMPTIONS = ["spglib 2.7 (conditioning filter on a replica of the analysed cell)", "re-presentations are exact isometries / relabellings",
               "symmetry tolerance 0.01 A; extents compared within 2 tol because the conventional cell is idealized"]
CASE_TIMEOUT = 240
BUDGET_S = {"quick": 600, "thorough": 3000}
TOL = 0.01
M_POST, M_REL = "conventional_2d_post", "normal_form_2d_relation"


def floors(tier):
    return {M_POST: 600 if tier == "quick" else 10000, M_REL: 400 if tier == "quick" else 7000}


def worker_init(lane):
    sym.bind_all()


def gen_cases(tier, seed):
    ss = np.random.SeedSequence([seed, 11])
    n, k = (260, 4) if tier == "quick" else (3000, 6)
    cases = []
    for lid, child in enumerate(ss.spawn(n)):
        s = int(child.generate_state(1)[0])
        for j in range(k):
            cases.append({"layer": lid, "seed": s, "pres": j, "group": j % 2})
    return cases


_cache = {}


def layer_for(case):
    key = case["seed"]
    if key not in _cache:
        if len(_cache) > 32:
            _cache.clear()
        rng = np.random.default_rng(case["seed"])
        _cache[key] = layers2d.random_layer(rng, TOL)
    base, meta = _cache[key]
    if base is None:
        return None, None, None
    if case["pres"] == 0:
        return base.copy(), meta, {"identity": True}
    prng = np.random.default_rng([case["seed"], case["pres"]])
    for _ in range(5):
        a, info = layers2d.present(prng, base)
        ok, _ = layers2d.well_conditioned(a, TOL)
        if ok:
            return a, meta, info
    return None, meta, None


def extent_along_normal(atoms):
    pbc = atoms.get_pbc()
    i = int(np.argwhere(~pbc)[0][0])
    P = [k for k in range(3) if k != i]
    cell = atoms.get_cell().array
    nrm = np.cross(cell[P[0]], cell[P[1]])
    nrm /= np.linalg.norm(nrm)
    h = atoms.get_positions() @ nrm
    return float(h.max() - h.min())


def run_case(case):
    import matid
    rec = core.Recorder()
    atoms, meta, pinfo = layer_for(case)
    if atoms is None:
        out = rec.export()
        out["discarded"] = "ill_conditioned_or_unreachable"
        out["info"] = {"nontrivial": False, "classes": {}}
        return out
    rng = np.random.default_rng([case["seed"], 77])
    m2d = float(rng.choice([0.5, 1.0, 3.0]))
    core.set_recorder(rec)
    obs = {}
    wit = {"input": sym.describe(atoms), "symmetry_tol": TOL, "min_2d_thickness": m2d, "layer": meta, "presentation": pinfo}
    try:
        try:
            an = matid.SymmetryAnalyzer(atoms, symmetry_tol=TOL, min_2d_thickness=m2d)
            conv = an.get_conventional_system()
            obs["material_id"] = an.get_material_id()
            obs["number"] = int(an.get_space_group_number())
            obs["sets"] = sorted((s.wyckoff_letter, s.element, int(s.multiplicity)) for s in an.get_wyckoff_sets_conventional(False))
        except Exception as e:
            rec.call(M_POST); rec.judged(M_POST)
            rec.violation(M_POST, "C11|exception|%s" % type(e).__name__, "2D analysis raised %r" % (e,), wit)
            conv = None
        if conv is not None:
            rec.call(M_POST); rec.judged(M_POST)
            cell = conv.get_cell().array
            cp = sym.cellpar(cell)
            obs["inplane"] = [float(cp[0]), float(cp[1]), float(cp[5])]
            pbc = [bool(b) for b in conv.get_pbc()]
            if pbc != [True, True, False]:
                rec.violation(M_POST, "C11|pbc", "conventional 2D system has pbc %s" % pbc, wit)
            s = conv.get_scaled_positions(wrap=False)
            if s.min() < -1e-6 or s.max() > 1 + 1e-6:
                rec.violation(M_POST, "C11|atoms-outside", "atoms outside the conventional cell: scaled range [%r, %r]" % (float(s.min()), float(s.max())), wit)
            clen = float(np.linalg.norm(cell[2]))
            ext_in = extent_along_normal(atoms)
            want = max(ext_in, m2d)
            if abs(clen - want) > 2 * TOL + 1e-6:
                rec.violation(M_POST, "C11|thickness", "thickness |c| = %r, expected max(atomic extent %r, min_2d_thickness %r)" % (clen, ext_in, m2d), wit)
            else:
                ext_conv = float((s[:, 2].max() - s[:, 2].min()) * clen)
                if ext_conv > clen + 1e-6 or (ext_in >= m2d + 2 * TOL and abs(ext_conv - clen) > 1e-6):
                    rec.violation(M_POST, "C11|thickness", "cell length %r does not fit the atomic extent %r" % (clen, ext_conv), wit)
            # the same cell treated as a 3D crystal must get another id
            a3 = atoms.copy(); a3.set_pbc(True)
            try:
                id3 = matid.SymmetryAnalyzer(a3, symmetry_tol=TOL).get_material_id()
                if id3 == obs.get("material_id"):
                    rec.violation(M_POST, "C11|id-equals-3d-id", "the 2D material id equals the id of the same cell analysed as a 3D crystal", wit)
            except Exception:
                rec.note("3d_reference_analysis_failed")
    finally:
        core.set_recorder(None)
    out = rec.export()
    pcls = "as_generated" if case["pres"] == 0 else "represented"
    out["info"] = {"key": "%s|%s|%d|%s|%d" % (meta.get("source"), meta.get("layer_group"), len(atoms), pcls, case["pres"]), "nontrivial": True,
                   "classes": {"source": meta.get("source"), "layer_group": meta.get("layer_group", "-"), "flat": meta.get("flat"),
                               "min_2d_thickness": m2d, "axis_permutation": str((pinfo or {}).get("axis_permutation", "identity"))}}
    out["data"] = {"obs": obs, "input": sym.describe(atoms)}
    out["sample"] = {"layer": meta, "presentation": pinfo, "min_2d_thickness": m2d, "observed": obs}
    return out


def offline(cases, results, tier):
    by = {}
    for c, r in zip(cases, results):
        if r["status"] == "ok" and not r["result"].get("discarded") and (r["result"].get("data") or {}).get("obs", {}).get("material_id"):
            by.setdefault(c["layer"], []).append((c, r))
    mon = {"calls": 0, "judged": 0, "ood": 0, "viol": 0}
    viols = []
    for lid, members in by.items():
        c0, r0 = members[0]
        o0 = r0["result"]["data"]["obs"]
        for c, r in members[1:]:
            o = r["result"]["data"]["obs"]
            mon["calls"] += 1; mon["judged"] += 1
            diffs = [k for k in ("material_id", "number", "sets") if o.get(k) != o0.get(k)]
            if not diffs and o.get("inplane") and o0.get("inplane"):
                a, b = np.array(o["inplane"]), np.array(o0["inplane"])
                if np.abs(a[:2] - b[:2]).max() > 1e-5 * b[:2].max() or abs(a[2] - b[2]) > 1e-4:
                    diffs.append("inplane-lattice")
            if diffs:
                mon["viol"] += 1
                viols.append((c["idx"], {"monitor": M_REL, "key": "C11|differs|%s" % "+".join(diffs),
                                         "what": "presentations %d and %d of one sheet differ in %s: %r vs %r" % (c0["pres"], c["pres"], diffs, {k: o0.get(k) for k in diffs}, {k: o.get(k) for k in diffs}),
                                         "witness": {"input_a": r0["result"]["data"]["input"], "input_b": r["result"]["data"]["input"], "symmetry_tol": TOL,
                                                     "presentation_b": (r["result"].get("sample") or {}).get("presentation"),
                                                     "a": o0, "b": o, "hashseed_a": r0.get("hashseed"), "hashseed_b": r.get("hashseed")}}))
    return viols, {"monitors": {M_REL: mon}, "sheets_compared": sum(1 for m in by.values() if len(m) >= 2)}
