"""C12 - original, primitive and conventional descriptions are mutually consistent.

Deciding monitor: postcondition on get_primitive_system (monitors/sym.py: per-atom arrays, class consistency,
(letter, element) histograms in the ratio of atom counts, centring multiplicity, primitivity and group of the
primitive system by independent spglib calls, volume per atom)."""
from checks import symfam

ID = "C12"
LEVEL = "exploration"
RULE = ("the C05 crystal family over all 230 groups - all seven centring types P, A, C, I, F, R guaranteed in every run - "
        "as generated and as permuted supercells; distinct = (group, orbit kinds, n atoms, presentation)")
ASSUMPTIONS = ["spglib 2.7 (group of the primitive cell, standardize_cell(to_primitive) as primitivity test)",
               "centring multiplicity from the first letter of spglib's international symbol"]
CASE_TIMEOUT = 240
BUDGET_S = {"quick": 600, "thorough": 3000}
NAME = "primitive_system_post"
worker_init = symfam.worker_init


def floors(tier):
    return {NAME: 400 if tier == "quick" else 12000}


def gen_cases(tier, seed):
    return _gen_cases(tier, seed) + symfam.gen_general_first_cases(tier, seed, 12)


def _gen_cases(tier, seed):
    if tier == "quick":
        return symfam.gen_cases(tier, seed, 12, per_group=1, n_pres=2, extra_random=60)
    return symfam.gen_cases(tier, seed, 12, per_group=20, n_pres=3, extra_random=1000)


def run_case(case):
    out, obs, atoms, meta = symfam.run_crystal_case(case, ("labels", "conv", "prim"), NAME, "C12")
    return out


def offline(cases, results, tier):
    return [], {"generator_discards": symfam.generator_summary(results)}
