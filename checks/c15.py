"""C15 - the chirality flag is true exactly for the 65 Sohncke space groups.

Deciding monitor: postcondition on get_is_chiral against the Sohncke set computed at run time from spglib's Hall
database (must have 65 members); offline relational check: the flag is identical across presentations."""
from checks import symfam
from monitors import sym

ID = "C15"
LEVEL = "exploration"
RULE = ("one or more crystals in every one of the 230 groups x presentations (unimodular basis changes, supercells |det|<=4, "
        "rotations, translations, permutations); flag judged against the Sohncke set from the Hall database and compared "
        "across presentations; distinct = (group, orbit kinds, n atoms, presentation)")
ASSUMPTIONS = ["spglib Hall-symbol database (operations of the standard setting)", "spglib symmetry search for the detected group"]
CASE_TIMEOUT = 240
BUDGET_S = {"quick": 600, "thorough": 3000}
NAME = "is_chiral_post"
REL = "is_chiral_invariance"
worker_init = symfam.worker_init


def floors(tier):
    return {NAME: 600 if tier == "quick" else 14000, REL: 300 if tier == "quick" else 9000}


def gen_cases(tier, seed):
    pseudo = symfam.gen_pseudo_cases(tier, seed, 15, 1, n_pres=2) if tier == "quick" else \
        symfam.gen_pseudo_cases(tier, seed, 15, 5, n_pres=3, groups=range(1, 195))
    return _gen_cases(tier, seed) + pseudo


def _gen_cases(tier, seed):
    if tier == "quick":
        return symfam.gen_cases(tier, seed, 15, per_group=1, n_pres=3, extra_random=20)
    return symfam.gen_cases(tier, seed, 15, per_group=12, n_pres=6, extra_random=600)


def run_case(case):
    out, obs, atoms, meta = symfam.run_crystal_case(case, ("labels", "chiral"), NAME, "C15")
    if atoms is not None:
        out["data"]["input"] = sym.describe(atoms)
    return out


def offline(cases, results, tier):
    by = {}
    for c, r in zip(cases, results):
        if r["status"] == "ok" and not r["result"].get("discarded") and (r["result"].get("data") or {}).get("obs"):
            by.setdefault(c["crystal"], []).append((c, r))
    mon = {"calls": 0, "judged": 0, "ood": 0, "viol": 0}
    viols = []
    for cid, members in by.items():
        c0, r0 = members[0]
        f0 = r0["result"]["data"]["obs"].get("chiral")
        for c, r in members[1:]:
            f = r["result"]["data"]["obs"].get("chiral")
            mon["calls"] += 1; mon["judged"] += 1
            if f != f0:
                mon["viol"] += 1
                viols.append((c["idx"], {"monitor": REL, "key": "C15|flag-depends-on-presentation",
                                         "what": "get_is_chiral differs between presentations %d (%r) and %d (%r) of one crystal of group %d"
                                         % (c0["pres"], f0, c["pres"], f, c["group_no"]),
                                         "witness": {"input_a": r0["result"]["data"].get("input"), "input_b": r["result"]["data"].get("input"),
                                                     "group": c["group_no"], "symmetry_tol": symfam.TOL}}))
    return viols, {"monitors": {REL: mon}, "generator_discards": symfam.generator_summary(results)}
