"""C13 - Cluster.get_dimensionality agrees with get_dimensionality of the cluster's atoms.

Deciding monitor: postcondition evaluated on every cluster returned by SBC.get_clusters
(monitors/pipeline.check_cluster_dimensionality): the shortcut (twice: repeatable) vs the direct evaluation on the
cluster's atoms with the radii / bond threshold used for the clustering.  Stage recorders tell which clusters lost
atoms after region tracking (localize / clean) - the situation the cached sub-matrix must survive."""
import numpy as np

from checks import sbcfam

ID = "C13"
LEVEL = "exploration"
RULE = ("the C01 structure family biased towards crystallites, vacancy shells (an atom on a lattice site whose neighbours "
        "were all removed), defective crystals, two-grain cells and slabs; radii covalent / vdw / vdw_covalent / custom "
        "array, bond_threshold 0.4-1.0; plus a slice of the enumerated C02 / C03 universes. Non-trivial = a cluster was returned; the evidence counts separately the clusters "
        "from which localization or cleaning removed atoms. distinct = (family, pbc, cell mode, size bucket, parameters, "
        "number of clusters)")
ASSUMPTIONS = ["matid.geometry.get_dimensionality is the reference (it is itself the subject of C09)",
               "ASE radii tables for presets"]
CASE_TIMEOUT = 600
BUDGET_S = {"quick": 800, "thorough": 3300}
worker_init = sbcfam.worker_init
FAMS = ["crystallite", "vacancy_shell", "vacancy_shell", "defective", "two_crystals", "slab", "crystal", "shared_species_stack",
        "minority_compound", "minority_compound", "minority_compound"]


def floors(tier):
    return {sbcfam.M_C13: 120 if tier == "quick" else 2000}


def gen_cases(tier, seed):
    ss = np.random.SeedSequence([seed, 13])
    q = tier == "quick"
    cases = []
    for k, child in enumerate(ss.spawn(220 if q else 3000)):
        fam = FAMS[k % len(FAMS)]
        cases.append({"seed": int(child.generate_state(1)[0]), "max_atoms": (150 if fam == "minority_compound" else 110) if q else 300,
                      "family": fam, "allow_invalid": False})
    # threshold-edge inputs: ideal simple-cubic supercells, a uniform custom radii array and a bond threshold whose
    # decimal value coincides with the nearest-neighbour gap a - 2r.  They are ILL-CONDITIONED (gap within an ulp of the
    # threshold) and counted out of domain by the monitor; a few are kept so that the evidence shows the rule at work
    erng = np.random.default_rng([seed, 131313])
    for _ in range(6 if q else 60):
        a = float(erng.choice([3.0, 3.25, 3.5, 3.75, 4.0]))
        thr = float(erng.choice([0.45, 0.5, 0.55, 0.6, 0.65, 0.7, 0.75, 0.8, 0.85, 0.9, 0.95]))
        cases.append({"kind": "threshold_edge", "a": a, "thr": thr, "r": round((a - thr) / 2, 4),
                      "rep": [int(x) for x in erng.choice([3, 3, 4], size=3)], "pbc": [bool(x) for x in erng.random(3) < 0.8],
                      "element": str(erng.choice(["Fe", "Ti", "Zr", "Po", "Cu"])), "perm_seed": int(erng.integers(1 << 30))})
    from gen import slabs
    rng = np.random.default_rng([seed, 1313])
    u2, u3 = slabs.c02_cells(), slabs.c03_cells()
    for kind, uni, n in (("c02cell", u2, 25 if q else 250), ("c03cell", u3, 25 if q else 250)):
        for i in rng.choice(len(uni), size=n, replace=False):
            cases.append({"kind": kind, "cell": uni[int(i)], "seed_class": seed % 4})
    return cases


def run_threshold_edge(case):
    import matid
    from ase.build import bulk
    from monitors import core, pipeline
    rec = core.Recorder()
    atoms = bulk(case["element"], "sc", a=case["a"]).repeat(tuple(case["rep"]))
    atoms.set_pbc(case["pbc"])
    prng = np.random.default_rng(case["perm_seed"])
    if prng.random() < 0.5:
        atoms = atoms[[int(i) for i in prng.permutation(len(atoms))]]
    params = {"radii": np.full(len(atoms), case["r"]), "bond_threshold": case["thr"]}
    pipeline.reset_stage_state()
    core.set_recorder(rec)
    n = -1
    try:
        try:
            clusters = matid.SBC().get_clusters(atoms, **params)
            n = len(clusters)
            pipeline.check_cluster_dimensionality(rec, sbcfam.M_C13, atoms, params, clusters, pipeline.changed_clusters())
            rec.note("threshold_edge_clusters_judged", n)
        except Exception as e:
            rec.note("sbc_exception:%s" % type(e).__name__)
    finally:
        core.set_recorder(None)
    out = rec.export()
    gap = case["a"] - (case["r"] + case["r"])
    side = "gap==thr" if gap == case["thr"] else ("gap>thr" if gap > case["thr"] else "gap<thr")
    out["info"] = {"key": "threshold_edge|%s|%s|%s|%s" % (case["a"], case["thr"], "".join("TF"[not b] for b in case["pbc"]), side),
                   "nontrivial": n > 0, "classes": {"family": "threshold_edge", "n_clusters": n, "radii": "custom", "float_gap": side}}
    out["sample"] = {"a": case["a"], "r": case["r"], "thr": case["thr"], "natoms": len(atoms), "n_clusters": n, "float_gap": side}
    return out


def run_case(case):
    if case.get("kind") == "threshold_edge":
        return run_threshold_edge(case)
    if case.get("kind") in ("c02cell", "c03cell"):
        return run_enumerated(case)
    return sbcfam.run_sbc_case(case, want_c13=True, determinism=False)


def run_enumerated(case):
    """A slice of the C02 / C03 universes: their clusters are judged by the same C13 postcondition."""
    import matid
    from gen import slabs
    from monitors import core, pipeline
    cell = case["cell"]
    rec = core.Recorder()
    rng = np.random.default_rng(slabs.stable_seed(cell["key"], case["seed_class"], 0))
    try:
        if case["kind"] == "c02cell":
            base, prim, proto, dim = slabs.build_c02(cell)
            groups = {}
        else:
            base, groups = slabs.build_c03(cell)
        atoms, _ = slabs.present(base, rng, noise=cell["noise"], track=groups)
    except Exception as e:
        out = rec.export(); out["discarded"] = "builder:%s" % type(e).__name__; out["info"] = {"nontrivial": False, "classes": {}}
        return out
    if len(atoms) > 500:
        out = rec.export(); out["discarded"] = "too_many_atoms"; out["info"] = {"nontrivial": False, "classes": {}}
        return out
    params = {"radii": ["covalent", "vdw_covalent"][int(rng.integers(2))], "bond_threshold": float(rng.choice([0.65, 0.8]))}
    pipeline.reset_stage_state()
    core.set_recorder(rec)
    n = -1
    try:
        try:
            clusters = matid.SBC().get_clusters(atoms, **params)
            n = len(clusters)
            pipeline.check_cluster_dimensionality(rec, sbcfam.M_C13, atoms, params, clusters, pipeline.changed_clusters())
        except Exception as e:
            rec.note("sbc_exception:%s" % type(e).__name__)
    finally:
        core.set_recorder(None)
    out = rec.export()
    out["info"] = {"key": "%s|%s" % (case["kind"], cell["key"]), "nontrivial": n > 0, "classes": {"family": case["kind"], "n_clusters": n, "radii": params["radii"]}}
    out["sample"] = {"cell": cell["key"], "natoms": len(atoms), "params": params, "n_clusters": n}
    return out


def offline(cases, results, tier):
    changed = 0
    for r in results:
        if r["status"] == "ok":
            changed += (r["result"].get("stage") or {}).get("C13_clusters_with_atoms_removed_after_tracking", 0)
    return [], {"clusters_with_atoms_removed_after_tracking": changed}
