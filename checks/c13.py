"""C13 - Cluster.get_dimensionality agrees with get_dimensionality of the cluster's atoms.

Deciding monitor: postcondition evaluated on every cluster returned by SBC.get_clusters
(monitors/pipeline.check_cluster_dimensionality): the shortcut (twice: repeatable) vs the direct evaluation on the
cluster's atoms with the radii / bond threshold used for the clustering.  Stage recorders tell which clusters lost
atoms after region tracking (localize / clean) - the situation the cached sub-matrix must survive."""
import numpy as np

from checks import sbcfam

ID = "C13"
LEVEL = "exploration"
RULE = ("the C01 structure family biased towards crystallites, vacancy shells (an atom on a lattice site whose neighbours "
        "were all removed), defective crystals, two-grain cells and slabs; radii covalent / vdw / vdw_covalent / custom "
        "array, bond_threshold 0.4-1.0. Non-trivial = a cluster was returned; the evidence counts separately the clusters "
        "from which localization or cleaning removed atoms. distinct = (family, pbc, cell mode, size bucket, parameters, "
        "number of clusters)")
ASSUMPTIONS = ["matid.geometry.get_dimensionality is the reference (it is itself the subject of C09)",
               "ASE radii tables for presets"]
CASE_TIMEOUT = 600
BUDGET_S = {"quick": 800, "thorough": 3300}
worker_init = sbcfam.worker_init
FAMS = ["crystallite", "vacancy_shell", "vacancy_shell", "defective", "two_crystals", "slab", "crystal"]


def floors(tier):
    return {sbcfam.M_C13: 120 if tier == "quick" else 2000}


def gen_cases(tier, seed):
    ss = np.random.SeedSequence([seed, 13])
    q = tier == "quick"
    cases = []
    for k, child in enumerate(ss.spawn(200 if q else 3000)):
        cases.append({"seed": int(child.generate_state(1)[0]), "max_atoms": 110 if q else 300, "family": FAMS[k % len(FAMS)],
                      "allow_invalid": False})
    return cases


def run_case(case):
    return sbcfam.run_sbc_case(case, want_c13=True, determinism=False)


def offline(cases, results, tier):
    changed = 0
    for r in results:
        if r["status"] == "ok":
            changed += (r["result"].get("stage") or {}).get("C13_clusters_with_atoms_removed_after_tracking", 0)
    return [], {"clusters_with_atoms_removed_after_tracking": changed}
