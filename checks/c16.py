"""C16 - periodic neighbour search and position matching are complete and exact.

Monitors (bound on the real functions, package and module): get_extended_system, get_cell_list (registers the
construction parameters and walks the live bins - "invariant at a hook"), CellList.get_neighbours_for_position,
get_matches, get_matches_simple.  Oracle: brute-force image enumeration (exact point-to-parallelepiped distance
for the completeness of the extension).
"""
import os

import numpy as np

from harness import env
from monitors import core, geom
from gen import cells
from oracles import mic as omic

ID = "C16"
LEVEL = "exploration"
RULE = ("cases = batches of random executions: 1-12 atoms inside orthogonal/triclinic/sheared/needle/plate/small cells "
        "(rotated; all pbc masks; for the extended system also cells with 1-3 zero non-periodic vectors), extension and "
        "cutoff 0.2-4 A in both orders plus hostile values (0, exactly a cell height), query points inside the cell, on "
        "faces, on bin edges and on atoms, probe positions near images/atoms/empty space with equal or foreign species; "
        "installed binding, fresh build, ASan+UBSan build; plus SBC/Classifier pipeline runs observed in situ. "
        "Non-trivial = at least one periodic image had to be present/returned/matched; distinct = (cell kind, pbc, n, "
        "extension>=cutoff, lane, context)")
ASSUMPTIONS = ["numpy linear algebra", "ctypes adapter validated bit-for-bit against the installed binding",
               "atoms inside the cell (the stated domain); unwrapped inputs are fed but counted out_of_domain"]
CASE_TIMEOUT = 300
BUDGET_S = {"quick": 600, "thorough": 3000}

M_EXT, M_Q, M_MATCH, M_INV = "extended_system_post", "neighbour_query_post", "matches_post", "cell_list_invariants"


def floors(tier):
    q = tier == "quick"
    return {M_EXT: 500 if q else 10000, M_Q: 2000 if q else 40000, M_MATCH: 2000 if q else 40000, M_INV: 300 if q else 5000}


def gen_cases(tier, seed):
    has_installed = bool([f for f in os.listdir(os.path.join(env.REPO, "matid")) if f.startswith("ext.cpython")])
    ss = np.random.SeedSequence([seed, 16])
    q = tier == "quick"
    plan = [("plain", 24 if q else 400, 40), ("san", 6 if q else 80, 25)]
    if has_installed:
        plan.insert(0, ("installed", 16 if q else 300, 40))
    cases = []
    for lane, nb, bsize in plan:
        for child in ss.spawn(nb):
            cases.append({"kind": "direct", "lane": lane, "seed": int(child.generate_state(1)[0]), "n": bsize})
    for lane, nb in (("plain", 12 if q else 150), ("san", 2 if q else 30)):
        for child in ss.spawn(nb):
            cases.append({"kind": "pipeline", "lane": lane, "seed": int(child.generate_state(1)[0])})
    return cases


_state = {"registry": {}}


def _registry_get(cl):
    return _state["registry"].get(id(cl))


def worker_init(lane):
    import matid.geometry
    import matid.geometry.geometry as gg
    import matid.ext
    _state["lane"] = lane
    _state["rng"] = np.random.default_rng(0)
    _state["context"] = "direct"
    _state["query_sample"] = 1.0

    def post_ext(rec, snap, es, exc, system, cutoff=0):
        if exc is not None:
            return
        geom.check_extended_system(rec, M_EXT, lane, system.get_positions(), system.get_atomic_numbers(),
                                   system.get_cell().array, system.get_pbc(), cutoff, es, context=_state["context"])

    def post_cl(rec, snap, cl, exc, positions, cell, pbc, extension, cutoff):
        if exc is not None:
            return
        pos = np.array(positions, float)
        cellv = np.array(cell, float)
        pbcv = np.array(pbc, bool)
        es = matid.ext.extend_system(pos, np.zeros(len(pos), int), cellv, pbcv, extension)
        _state["registry"][id(cl)] = {"cl": cl, "pos": pos, "cell": cellv, "pbc": pbcv, "extension": float(extension),
                                      "cutoff": float(cutoff), "es": es}
        if hasattr(cl, "_invariants"):
            rec.call(M_INV)
            inv = cl._invariants()
            n = inv["n"]
            okk = (inv["stored"] == n and inv["bad_range"] == 0 and inv["misplaced"] == 0 and inv["bad_index"] == 0
                   and inv["n_bins"] == inv["nx"] * inv["ny"] * inv["nz"]
                   and min(inv["dx"], inv["dy"], inv["dz"]) >= inv["cutoff"] and n == len(es.indices))
            rec.judged(M_INV)
            if not okk:
                rec.violation(M_INV, "C16|bins|invariant", "live cell-list bins violate an invariant: %r" % (inv,),
                              geom.structure_witness(pos, cellv, pbcv, extension=repr(extension), cutoff=repr(cutoff), lane=lane))

    def post_matches(simple):
        def post(rec, snap, result, exc, system, cell_list, positions, numbers, tolerance):
            reg = _registry_get(cell_list)
            if exc is not None:
                rec.call(M_MATCH)
                cellv = system.get_cell().array
                if abs(np.linalg.det(cellv)) < 1e-12:
                    # degenerate (zero-vector) cells are in the stated domain of the extended system only
                    rec.ood(M_MATCH); rec.note("match_exception_on_singular_cell:%s" % type(exc).__name__)
                    return
                rec.violation(M_MATCH, "C16|match|exception|%s" % type(exc).__name__, "matching raised %r" % (exc,),
                              geom.structure_witness(system.get_positions(), cellv, system.get_pbc()))
                return
            if reg is None:
                rec.call(M_MATCH); rec.ood(M_MATCH); return
            if not np.array_equal(reg["pos"], system.get_positions()):
                rec.call(M_MATCH); rec.ood(M_MATCH); return
            geom.check_matches(rec, M_MATCH, lane, reg["pos"], system.get_atomic_numbers(), reg["cell"], reg["pbc"],
                               reg["extension"], reg["cutoff"], positions, numbers, tolerance, result, simple,
                               _state["rng"], context=_state["context"])
        return post

    core.bind([matid.geometry, gg], "get_extended_system", core.observe(post_ext))
    core.bind([matid.geometry, gg], "get_cell_list", core.observe(post_cl))
    core.bind([matid.geometry, gg], "get_matches", core.observe(post_matches(False)))
    core.bind([matid.geometry, gg], "get_matches_simple", core.observe(post_matches(True)))

    # in-situ neighbour queries (adapter lanes: CellList is a Python class)
    CL = getattr(matid.ext, "CellList", None)
    if CL is not None and getattr(matid.ext, "_verif_adapter", False):
        def post_q(rec, snap, res, exc, self, x, y, z):
            if exc is not None or _state["context"] == "direct":
                return
            reg = _registry_get(self)
            if reg is None or _state["rng"].random() > _state["query_sample"]:
                return
            geom.check_neighbour_query(rec, M_Q, lane, reg["pos"], reg["cell"], reg["pbc"], reg["extension"], reg["cutoff"],
                                       reg["es"], [x, y, z], res, context=_state["context"])
        CL.get_neighbours_for_position = core.observe(post_q)(CL.get_neighbours_for_position)


def _degenerate(rng, cell, pbc):
    cell = cell.copy()
    idx = [i for i in range(3) if not pbc[i]]
    if not idx:
        return cell, False
    k = int(rng.integers(1, len(idx) + 1))
    for i in rng.choice(idx, size=k, replace=False):
        cell[i] = 0.0
    return cell, True


def run_direct(case, rec):
    import matid.geometry
    from ase import Atoms
    lane = _state["lane"]
    rng = np.random.default_rng(case["seed"])
    _state["rng"] = np.random.default_rng(case["seed"] + 1)
    _state["context"] = "direct"
    keys, n_exec, sample = set(), 0, None
    classes = {"cell_kind": [], "pbc": [], "natoms": [], "order": [], "degenerate": []}
    for it in range(case["n"]):
        _state["registry"].clear()
        cell, kind = cells.random_cell(rng, lo=1.5, hi=8.0)
        pbc = np.array(cells.PBCS[int(rng.integers(8))])
        n = int(rng.integers(1, 13))
        pos, _, mode = cells.positions_inside(rng, cell, n)
        num = rng.choice([1, 6, 8, 14, 29], size=n)
        h = omic.heights(cell, pbc)
        hf = h[np.isfinite(h)]

        def pick():
            r = rng.random()
            if r < 0.1 and len(hf):
                return float(rng.choice(hf))
            if r < 0.2 and len(hf):
                return float(rng.choice(hf)) / 2
            return float(rng.uniform(0.2, 4.0))
        extension, cutoff = pick(), pick()
        nimg = np.prod([2 * int(np.ceil(extension / h[i])) + 1 if pbc[i] else 1 for i in range(3)])
        if nimg * n > 40000:
            continue
        # ---------- extended system (also degenerate cells and zero extension)
        ecell, deg = (cell, False)
        if rng.random() < 0.3:
            ecell, deg = _degenerate(rng, cell, pbc)
        ext_cut = 0.0 if rng.random() < 0.08 else extension
        sysm = Atoms(numbers=num, positions=pos, cell=ecell, pbc=pbc)
        before = rec.counter(M_EXT)["judged"]
        try:
            matid.geometry.get_extended_system(sysm, ext_cut)
        except Exception as e:
            rec.violation(M_EXT, "C16|extend|exception|%s" % type(e).__name__, "get_extended_system raised %r" % (e,),
                          geom.structure_witness(pos, ecell, pbc, cutoff=repr(ext_cut), lane=lane))
        # ---------- cell list + queries
        sysm = Atoms(numbers=num, positions=pos, cell=cell, pbc=pbc)
        cl = matid.geometry.get_cell_list(pos, cell, pbc, extension, cutoff)
        reg = _registry_get(cl)
        qpts = [rng.random(3) @ cell for _ in range(4)]
        s = rng.random(3); s[int(rng.integers(3))] = float(rng.choice([0.0, 1.0])); qpts.append(s @ cell)
        qpts.append(pos[int(rng.integers(n))].copy())
        if hasattr(cl, "_invariants"):
            inv = cl._invariants()
            # a point on a bin edge along x (if it lies inside the cell it is judged, otherwise counted out-of-domain)
            P = np.asarray(reg["es"].positions)
            edge = np.array([P[:, 0].min() - 1e-4 + inv["dx"] * int(rng.integers(0, max(1, int(inv["nx"])) + 1)),
                             rng.uniform(P[:, 1].min(), P[:, 1].max()), rng.uniform(P[:, 2].min(), P[:, 2].max())])
            qpts.append(edge)
        for qp in qpts:
            res = cl.get_neighbours_for_position(float(qp[0]), float(qp[1]), float(qp[2]))
            geom.check_neighbour_query(rec, M_Q, lane, pos, cell, pbc, extension, cutoff, reg["es"], qp, res)
        # get_neighbours_for_index on an original atom == query at its position
        ia = int(rng.integers(n))
        res = cl.get_neighbours_for_index(ia)
        geom.check_neighbour_query(rec, M_Q, lane, pos, cell, pbc, extension, cutoff, reg["es"], pos[ia], res, context="direct-index")
        # ---------- matching
        tol_m = float(rng.uniform(0.05, 1.0)) * min(extension, cutoff)
        if rng.random() < 0.1:
            tol_m = min(extension, cutoff)
        probes, pnum = [], []
        for _ in range(8):
            r = rng.random()
            j = int(rng.integers(n))
            if r < 0.5:      # near an atom / one of its images, folded back into the cell
                d = rng.normal(size=3); d *= rng.uniform(0, 1.6) * tol_m / np.linalg.norm(d)
                p = pos[j] + d
                sc = np.linalg.solve(cell.T, p)
                sc[pbc] %= 1.0
                p = sc @ cell
            else:
                p = rng.random(3) @ cell
            probes.append(p)
            pnum.append(int(num[j]) if rng.random() < 0.7 else 47)
        probes = np.array(probes)
        for fn in (matid.geometry.get_matches, matid.geometry.get_matches_simple):
            try:
                fn(sysm, cl, probes.copy(), list(pnum), tol_m)
            except Exception as e:
                rec.violation(M_MATCH, "C16|match|exception|%s" % type(e).__name__, "%s raised %r" % (fn.__name__, e),
                              geom.structure_witness(pos, cell, pbc, lane=lane))
        n_exec += 1
        if pbc.any():
            keys.add("%s|%s|%d|%s|%s" % (kind, "".join("TF"[not b] for b in pbc), n, extension >= cutoff, lane))
        classes["cell_kind"].append(kind); classes["pbc"].append("".join("TF"[not b] for b in pbc))
        classes["natoms"].append(n); classes["order"].append("extension>=cutoff" if extension >= cutoff else "extension<cutoff")
        classes["degenerate"].append(bool(deg))
        if sample is None:
            sample = {"cell": cell.round(4).tolist(), "pbc": pbc.tolist(), "positions": pos.round(4).tolist(),
                      "extension": extension, "cutoff": cutoff, "match_tolerance": tol_m, "probes": probes.round(4).tolist()}
    return n_exec, keys, classes, sample


def run_pipeline(case, rec):
    from gen import structures
    import matid
    rng = np.random.default_rng(case["seed"])
    _state["rng"] = np.random.default_rng(case["seed"] + 1)
    _state["context"] = "pipeline"
    _state["query_sample"] = 0.02
    _state["registry"].clear()
    fam = ["crystal", "defective", "slab", "two_crystals", "crystallite", "vacancy_shell"][int(rng.integers(6))]
    atoms, meta = structures.random_structure(rng, max_atoms=120, family=fam)
    before = rec.counter(M_MATCH)["judged"]
    which = "SBC" if rng.random() < 0.7 else "Classifier"
    try:
        if which == "SBC":
            matid.SBC().get_clusters(atoms)
        else:
            matid.Classifier().classify(atoms)
    except Exception as e:
        rec.note("pipeline_exception:%s" % type(e).__name__)
    judged = rec.counter(M_MATCH)["judged"] - before
    keys = set()
    if judged:
        keys.add("pipeline|%s|%s|%s|%d" % (which, meta["family"], meta["pbc"], len(atoms) // 20))
    _state["registry"].clear()
    return 1, keys, {"pipeline": which, "family": meta["family"], "pbc": meta["pbc"]}, \
        {"pipeline": which, "family": meta["family"], "natoms": len(atoms), "probes_judged": judged}


def run_case(case):
    rec = core.Recorder()
    core.set_recorder(rec)
    try:
        if case["kind"] == "direct":
            n_exec, keys, classes, sample = run_direct(case, rec)
        else:
            n_exec, keys, classes, sample = run_pipeline(case, rec)
    finally:
        core.set_recorder(None)
    out = rec.export()
    out["info"] = {"keys": sorted(keys), "nontrivial": bool(keys), "classes": classes, "n_exec": n_exec}
    out["sample"] = sample
    return out


def crash_key(case, rep):
    return "C16|crash|%s|%s" % (case.get("lane"), rep.get("signal") or rep.get("returncode"))
