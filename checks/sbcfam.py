"""Shared workload of the SBC properties on the random structure family (C01, C13): generated structure ->
SBC().get_clusters with varied parameters, observed by the postcondition of monitors/pipeline.py bound on the real
method, with stage recorders on _merge/_localize/_clean."""
import numpy as np

from gen import structures
from monitors import core, pipeline

M_C01 = "get_clusters_post"
M_DET = "get_clusters_determinism"
M_C13 = "cluster_dimensionality_post"
M_REUSE = "get_clusters_instance_reuse"

_state = {"last": None}


def worker_init(lane):
    from matid.clustering.sbc import SBC
    pipeline.bind_sbc_stage_recorders()
    if getattr(SBC, "_verif_c01_bound", False):
        return
    SBC._verif_c01_bound = True

    def pre(self, system, *args, **kwargs):
        return pipeline.fingerprint(system)

    def post(rec, snap, result, exc, self, system, *args, **kwargs):
        names = ["angle_tol", "max_cell_size", "pos_tol", "merge_threshold", "merge_radius", "bond_threshold",
                 "overlap_threshold", "radii", "seed"]
        params = dict(zip(names, args))
        params.update(kwargs)
        after = pipeline.fingerprint(system)
        pipeline.check_clusters(rec, M_C01, system, snap, after, params, result, exc)
        _state["last"] = (params, result, exc)

    SBC.get_clusters = core.observe(post, pre)(SBC.get_clusters)


def random_params(rng, atoms, vary=True):
    p = {}
    if not vary:
        return p
    if rng.random() < 0.5:
        p["bond_threshold"] = float(rng.uniform(0.4, 1.0))
    if rng.random() < 0.4:
        p["pos_tol"] = float(rng.uniform(0.1, 1.0))
    if rng.random() < 0.4:
        p["max_cell_size"] = float(rng.uniform(4.0, 8.0))
    r = rng.random()
    if r < 0.3:
        p["merge_threshold"] = float(rng.uniform(0.3, 0.9))
    elif r < 0.5:
        p["merge_threshold"] = float(rng.uniform(0.0, 0.25))      # merge-prone: small overlaps already merge regions
    elif r < 0.6:
        p["merge_threshold"] = 1.0                                 # never merge: overlaps must be resolved by localization
    r = rng.random()
    z = atoms.get_atomic_numbers()
    from ase.data.vdw_alvarez import vdw_radii
    if r < 0.15 and not np.isnan(np.asarray(vdw_radii)[z]).any():
        p["radii"] = "vdw"
    elif r < 0.3:
        p["radii"] = "vdw_covalent"
    elif r < 0.45:
        from ase.data import covalent_radii
        p["radii"] = np.asarray(covalent_radii)[z] * float(rng.uniform(0.85, 1.15))
    if rng.random() < 0.6:
        p["seed"] = int(rng.integers(0, 1000))
    return p


def build_case_structure(case):
    rng = np.random.default_rng(case["seed"])
    fam = case.get("family")
    atoms, meta = structures.random_structure(rng, max_atoms=case.get("max_atoms", 150), family=fam,
                                              allow_invalid=case.get("allow_invalid", True))
    params = random_params(rng, atoms, case.get("vary_params", True))
    return atoms, meta, params


def run_sbc_case(case, want_c13=True, determinism=True):
    import matid
    rec = core.Recorder()
    atoms, meta, params = build_case_structure(case)
    pipeline.reset_stage_state()
    core.set_recorder(rec)
    sig = None
    try:
        _state["last"] = None
        try:
            clusters = matid.SBC().get_clusters(atoms, **params)
            exc = None
        except Exception as e:       # judged by the postcondition (C01|exception|...)
            clusters, exc = None, e
        if clusters is not None:
            sig = pipeline.cluster_signature(clusters)
            if want_c13:
                pipeline.check_cluster_dimensionality(rec, M_C13, atoms, params, clusters, pipeline.changed_clusters())
            # history independence: the same SBC *instance* used before with other (larger) radii must give the
            # same answer as a fresh instance (C01: a function of structure, parameters and seed only) and its
            # clusters must still satisfy C13
            rrng = np.random.default_rng(case["seed"] + 5)
            if rrng.random() < 0.4 and len(atoms) <= 160:
                from monitors.pipeline import resolve_radii
                base_r = resolve_radii(params.get("radii", "covalent"), atoms.get_atomic_numbers())
                if base_r is not None and np.all(np.isfinite(base_r)):
                    inst = matid.SBC()
                    first = dict(params, radii=np.asarray(base_r) * 1.25)
                    try:
                        with core.suspend():
                            inst.get_clusters(atoms, **first)
                        reused = inst.get_clusters(atoms, **params)
                        rec.call(M_REUSE); rec.judged(M_REUSE)
                        if pipeline.cluster_signature(reused) != sig:
                            rec.violation(M_REUSE, "C01|depends-on-instance-history", "an SBC instance that had clustered the same structure with other radii before "
                                          "returns a different result than a fresh instance",
                                          {"input": pipeline.describe(atoms), "params": {k: (v if not isinstance(v, np.ndarray) else v.tolist()) for k, v in params.items()}})
                        if want_c13:
                            pipeline.check_cluster_dimensionality(rec, M_C13, atoms, params, reused, {})
                    except Exception as e:
                        rec.note("reuse_exception:%s" % type(e).__name__)
            if determinism:
                with core.suspend():
                    try:
                        again = matid.SBC().get_clusters(atoms.copy(), **params)
                        sig2 = pipeline.cluster_signature(again)
                    except Exception as e:
                        sig2 = "exception:%s" % type(e).__name__
                rec.call(M_DET); rec.judged(M_DET)
                if sig2 != sig:
                    rec.violation(M_DET, "C01|nondeterministic|same-process", "a second call on a fresh SBC() with identical arguments gave a different result",
                                  {"input": pipeline.describe(atoms), "params": {k: (v if not isinstance(v, np.ndarray) else v.tolist()) for k, v in params.items()}})
    finally:
        core.set_recorder(None)
    out = rec.export()
    n_clusters = len(clusters) if clusters is not None else -1
    acted = any(k.startswith("stage_") and not k.endswith("_calls") for k in rec.stage)
    pk = ",".join(sorted(k for k in params))
    out["info"] = {"key": "%s|%s|%s|%d|%s|%s" % (meta["family"], meta["pbc"], meta["cell_mode"], len(atoms) // 25, pk, n_clusters),
                   "nontrivial": bool(n_clusters > 0 or acted or meta["expect_value_error"]),
                   "classes": {"family": meta["family"], "pbc": meta["pbc"], "cell_mode": meta["cell_mode"], "positions_mode": meta["positions_mode"], "order": meta.get("order", "as_built"),
                               "natoms_bucket": len(atoms) // 25 * 25, "n_clusters": n_clusters,
                               "radii": params.get("radii") if isinstance(params.get("radii", "covalent"), str) else "custom"}}
    out["data"] = {"signature": sig, "exception": None if exc is None else type(exc).__name__}
    out["sample"] = {"family": meta["family"], "pbc": meta["pbc"], "cell_mode": meta["cell_mode"], "positions_mode": meta["positions_mode"],
                     "natoms": len(atoms), "params": {k: (v if not isinstance(v, np.ndarray) else "custom-array") for k, v in params.items()},
                     "clusters": None if clusters is None else [{"n": len(c.indices), "species": sorted(int(s) for s in c.species)} for c in clusters][:6],
                     "exception": None if exc is None else repr(exc)[:200]}
    return out
