"""C14 - built-in space-group tables agree with the International Tables, all 230 groups.

A structural walk of the *live* tables (the objects the analyzer imported), exhaustive on every run:
SPACE_GROUP_INFO x230, WYCKOFF_SETS x1731 positions, CHIRALITY_PRESERVING_EUCLIDEAN_NORMALIZERS x982 entries.
Reference: spglib's Hall-symbol database for the standard setting, an independent expression parser, and the
letters spglib assigns to probe crystals."""
import numpy as np
import spglib

from checks import symfam
from gen import crystals230 as cg
from monitors import core, sym
from oracles import exprs

ID = "C14"
LEVEL = "exploration"
EXHAUSTIVE = True
RULE = ("exhaustive walk of the three live tables on every run: 230 group-info rows (also through the getters on one "
        "generated crystal per group), 1731 Wyckoff positions (every expression parsed and compared with its matrix/"
        "constant; closure, duplicate-freeness and orbit size of the generated point set under the standard-setting "
        "operations for random parameter values; letter assigned by spglib to a probe crystal), 982 normalizers "
        "(N G N^-1 = G, metric of a generic lattice of the system preserved, determinant +1 for Sohncke groups, letter "
        "permutation reproduced on probe crystals). One case per space group; distinct = table entries judged")
ASSUMPTIONS = ["spglib 2.7 Hall-symbol database: the first Hall number of each space-group type is the standard setting "
               "(origin choice 1, hexagonal axes, unique axis b) - the setting spglib standardizes to",
               "spglib letter assignment on probe crystals, judged only when spglib keeps the given setting "
               "(identity transformation, zero origin shift); other probes are counted as uncontrolled"]
CASE_TIMEOUT = 400
BUDGET_S = {"quick": 900, "thorough": 3000}
M_INFO, M_WY, M_WYL, M_NORM, M_NORML = "group_info_rows", "wyckoff_positions", "wyckoff_letters_probe", "normalizers", "normalizer_permutations_probe"
TOL = symfam.TOL


def floors(tier):
    return {M_INFO: 230, M_WY: 1731, M_NORM: 800, M_WYL: 1200, M_NORML: 1500}


def worker_init(lane):
    sym.bind_all()


def gen_cases(tier, seed):
    ss = np.random.SeedSequence([seed, 14])
    return [{"group_no": no, "seed": int(ch.generate_state(1)[0]), "draws": 1 if tier == "quick" else 3}
            for no, ch in zip(range(1, 231), ss.spawn(230))]


_first_hall = {}


def first_hall(no):
    if not _first_hall:
        for h in range(1, 531):
            t = spglib.get_spacegroup_type(h)
            _first_hall.setdefault(int(t.number), h)
    return _first_hall[no]


def std_ops(no):
    ops = spglib.get_symmetry_from_database(first_hall(no))
    return np.asarray(ops["rotations"], int), np.asarray(ops["translations"], float)


FAMILY = {"triclinic": "a", "monoclinic": "m", "orthorhombic": "o", "tetragonal": "t", "trigonal": "h", "hexagonal": "h", "cubic": "c"}


def reference_info(no):
    t = spglib.get_spacegroup_type(first_hall(no))
    system = cg.crystal_system(no)
    cent = t.international_short[0]
    cent = "S" if cent in "ABC" else cent
    return {"crystal_system": system, "pointgroup": t.pointgroup_international, "bravais": FAMILY[system] + cent}


def _mod1(x):
    x = np.mod(x, 1.0)
    x[np.abs(x - 1.0) < 1e-9] = 0.0
    return x


def _same_point(a, b, tol=1e-6):
    d = a - b
    d -= np.round(d)
    return np.abs(d).max() < tol


def _in_set(p, S, tol=1e-6):
    d = S - p
    d -= np.round(d)
    return bool((np.abs(d).max(axis=1) < tol).any())


def walk_info(rec, no):
    from matid.data.symmetry_data import SPACE_GROUP_INFO
    rec.call(M_INFO); rec.judged(M_INFO)
    ref = reference_info(no)
    row = SPACE_GROUP_INFO.get(no)
    if row is None:
        rec.violation(M_INFO, "C14|info|missing|%d" % no, "no SPACE_GROUP_INFO row for group %d" % no, {"group": no}); return
    br = row.get("bravais_lattice", "")
    br = br[0] + "S" if len(br) == 2 and br[1] in "ABC" else br
    for field, got, exp in (("crystal_system", row.get("crystal_system"), ref["crystal_system"]),
                            ("pointgroup", row.get("pointgroup"), ref["pointgroup"]), ("bravais_lattice", br, ref["bravais"])):
        if got != exp:
            rec.violation(M_INFO, "C14|info|%s|%d" % (field, no), "SPACE_GROUP_INFO[%d][%s] = %r, International Tables: %r" % (no, field, got, exp),
                          {"group": no, "field": field, "table": got, "reference": exp})


def getters_on_crystal(rec, no, rng):
    import matid
    atoms, meta, _ = cg.make_crystal(rng, no, TOL)
    if atoms is None:
        rec.note("getter_crystal_unavailable"); return None
    ref = reference_info(no)
    an = matid.SymmetryAnalyzer(atoms, symmetry_tol=TOL)
    rec.call(M_INFO + ":getters"); rec.judged(M_INFO + ":getters")
    got = {"crystal_system": an.get_crystal_system(), "pointgroup": an.get_point_group(), "bravais": an.get_bravais_lattice(),
           "number": an.get_space_group_number()}
    if got["number"] != no:
        rec.violation(M_INFO + ":getters", "C14|getter|number|%d" % no, "crystal of group %d reported as %r" % (no, got["number"]),
                      {"input": sym.describe(atoms), "group": no}); return atoms
    for k in ("crystal_system", "pointgroup", "bravais"):
        if got[k] != ref[k]:
            rec.violation(M_INFO + ":getters", "C14|getter|%s|%d" % (k, no), "a crystal of group %d is reported with %s=%r, International Tables: %r"
                          % (no, k, got[k], ref[k]), {"input": sym.describe(atoms), "group": no})
    return atoms


def position_points(info, translations, vals):
    pts = []
    for e in info["expressions"]:
        p = np.array(exprs.evaluate(e, vals))
        pts.append(p)
        for t in translations:
            pts.append(p + np.asarray(t, float))
    return _mod1(np.array(pts))


def probe_crystal(rng, no, pts0, scale=1.0):
    """orbit (as one representative point) + a general orbit of another species, built with ASE in setting 1"""
    from ase.spacegroup import crystal
    from ase import Atoms
    z1, z2 = (int(z) for z in rng.choice(cg.SPECIES, size=2, replace=False))
    cellpar = cg.random_cellpar(rng, no)
    cellpar = [x * scale for x in cellpar[:3]] + cellpar[3:]
    try:
        a = crystal([z1, z2], [tuple(pts0), tuple(rng.random(3))], spacegroup=no, cellpar=cellpar, onduplicates="error", symprec=1e-4)
    except Exception:
        return None, None
    if len(a) > 260 or cg.min_distance(a) < 0.6:
        return None, None
    return Atoms(numbers=a.get_atomic_numbers(), positions=a.get_positions(), cell=a.get_cell().array, pbc=True), z1


def controlled_letters(atoms, no, z1):
    """letter spglib assigns to the z1 orbit, or None if spglib did not keep the given setting"""
    ok, reason, ds = cg.stable(atoms, no, TOL)
    if not ok:
        return None, "ill_conditioned"
    P = np.asarray(ds.transformation_matrix); s = np.asarray(ds.origin_shift)
    if np.abs(P - np.eye(3)).max() > 1e-6 or np.abs(s - np.round(s)).max() > 1e-6:
        return None, "spglib_changed_setting"
    ls = set(w for w, z in zip(ds.wyckoffs, atoms.get_atomic_numbers()) if z == z1)
    if len(ls) != 1:
        return None, "orbit_split"
    return ls.pop(), None


def walk_wyckoff(rec, no, rng, draws):
    from matid.data.symmetry_data import WYCKOFF_SETS
    table = WYCKOFF_SETS[no]
    trans = [np.asarray(t, float) for t in table["translations"]]
    R, T = std_ops(no)
    keys = set()
    probes = {}
    for letter in sorted(k for k in table if k != "translations"):
        info = table[letter]
        rec.call(M_WY); rec.judged(M_WY)
        keys.add("wyckoff|%d%s" % (no, letter))
        wit = {"group": no, "letter": letter, "expressions": [list(e) for e in info["expressions"]]}
        Ms = np.asarray(info["matrices"], float); Cs = np.asarray(info["constants"], float)
        if len(info["expressions"]) != len(Ms) or len(Ms) != len(Cs):
            rec.violation(M_WY, "C14|wyckoff|shape|%d%s" % (no, letter), "expressions/matrices/constants differ in length", wit); continue
        vars_seen = set()
        for k, e in enumerate(info["expressions"]):
            for comp in range(3):
                try:
                    co, const = exprs.parse(e[comp])
                except ValueError:
                    rec.violation(M_WY, "C14|wyckoff|unparsable|%d%s|expr%d" % (no, letter, k), "cannot parse %r" % (e[comp],), wit); continue
                vars_seen |= {v for v in "xyz" if co[v] != 0}
                col = [float(co[v]) for v in "xyz"]
                if np.abs(Ms[k][:, comp] - col).max() > 1e-7 or abs(Cs[k][comp] - float(const)) > 1e-6:
                    rec.violation(M_WY, "C14|wyckoff|expression-vs-matrix|%d%s|expr%d" % (no, letter, k),
                                  "position %d%s expression %d component %d is %r but the numeric table has coefficients %s constant %r"
                                  % (no, letter, k, comp, e[comp], Ms[k][:, comp].tolist(), float(Cs[k][comp])), wit)
        if set(info["variables"]) != vars_seen:
            rec.violation(M_WY, "C14|wyckoff|variables|%d%s" % (no, letter), "variables %s, expressions use %s" % (sorted(info["variables"]), sorted(vars_seen)), wit)
        for d in range(draws):
            vals = {v: float(rng.uniform(0.07, 0.43)) for v in "xyz"}
            S = position_points(info, trans, vals)
            n = len(S)
            dup = any(_same_point(S[i], S[j]) for i in range(n) for j in range(i + 1, n))
            if dup:
                rec.violation(M_WY, "C14|wyckoff|duplicate|%d%s" % (no, letter), "generated points contain duplicates for generic parameters", dict(wit, params=vals)); break
            imgs = _mod1(np.einsum("oij,nj->noi", R, S) + T[None, :, :])
            closed = all(_in_set(imgs[i, o], S) for i in range(n) for o in range(len(R)))
            orbit = []
            for o in range(len(R)):
                p = imgs[0, o]
                if not _in_set(p, np.array(orbit)) if orbit else True:
                    orbit.append(p)
            if not closed:
                rec.violation(M_WY, "C14|wyckoff|not-closed|%d%s" % (no, letter), "point set of %d%s is not closed under the standard-setting operations" % (no, letter), dict(wit, params=vals)); break
            if len(orbit) != n:
                rec.violation(M_WY, "C14|wyckoff|orbit-size|%d%s" % (no, letter), "orbit of the first point has %d points, the table lists %d" % (len(orbit), n), dict(wit, params=vals)); break
            # letter by probe crystal
            rec.call(M_WYL)
            got = None
            for attempt in range(4):
                atoms, z1 = probe_crystal(rng, no, S[0], scale=1.0 + 0.25 * attempt)
                if atoms is None:
                    continue
                got, why = controlled_letters(atoms, no, z1)
                if got is not None:
                    probes.setdefault(letter, (atoms, z1))
                    break
            if got is not None and got != letter:
                # a random parameter draw can land within the tolerance of a more special position (seen once:
                # 140 k with x + y = 0.50004): a table error is independent of the parameters, so redraw
                confirmed = False
                for redraw in range(12):
                    vals2 = {v: float(rng.uniform(0.07, 0.43)) for v in "xyz"}
                    S2 = position_points(info, trans, vals2)
                    atoms2, z2 = probe_crystal(rng, no, S2[0], scale=1.0 + 0.1 * redraw)
                    if atoms2 is None:
                        continue
                    got2, why2 = controlled_letters(atoms2, no, z2)
                    if got2 is None:
                        continue
                    if got2 == letter:
                        got = letter
                        rec.note("letter_probe_coincidence_redrawn")
                    else:
                        got, atoms, vals = got2, atoms2, vals2      # reproduced on an independent draw
                    confirmed = True
                    break
                if not confirmed:
                    got = None
                    rec.note("letter_mismatch_not_reproducible")
            if got is None:
                rec.ood(M_WYL); rec.note("letter_probe_uncontrolled")
            else:
                rec.judged(M_WYL)
                if got != letter:
                    rec.violation(M_WYL, "C14|wyckoff|letter|%d%s" % (no, letter), "spglib names the orbit generated from table entry %d%s as %r" % (no, letter, got),
                                  dict(wit, params=vals, input=sym.describe(atoms)))
    return keys, probes


def metric_for(rng, no):
    from ase.geometry import cellpar_to_cell
    c = np.array(cellpar_to_cell(cg.random_cellpar(rng, no)))
    return c @ c.T, c


def walk_normalizers(rec, no, rng, probes):
    from matid.data.symmetry_data import CHIRALITY_PRESERVING_EUCLIDEAN_NORMALIZERS as NT, WYCKOFF_SETS
    R, T = std_ops(no)
    letters = sorted(k for k in WYCKOFF_SETS[no] if k != "translations")
    sohncke = no in sym.sohncke_groups()
    keys = set()
    group = [(R[i], _mod1(T[i].copy())) for i in range(len(R))]

    def in_group(Rq, tq):
        for Rg, tg in group:
            if np.array_equal(Rg, Rq) and _same_point(tg, tq):
                return True
        return False
    G, cell = metric_for(rng, no)
    for idx, entry in enumerate(NT.get(no, [])):
        rec.call(M_NORM); rec.judged(M_NORM)
        keys.add("normalizer|%d|%d" % (no, idx))
        A = np.asarray(entry["transformation"], float)
        P, p = A[:3, :3], A[:3, 3]
        wit = {"group": no, "index": idx, "transformation": A.tolist(), "permutations": {str(k): str(v) for k, v in entry["permutations"].items()}}
        if np.abs(A[3] - [0, 0, 0, 1]).max() > 1e-12 or abs(abs(np.linalg.det(P)) - 1) > 1e-9:
            rec.violation(M_NORM, "C14|normalizer|not-affine-unimodular|%d|%d" % (no, idx), "transformation is not a unimodular affine map", wit); continue
        Pi = np.linalg.inv(P)
        bad = None
        for Rg, tg in group:
            Rq = P @ Rg @ Pi
            if np.abs(Rq - np.round(Rq)).max() > 1e-9:
                bad = "conjugate rotation is not integral"; break
            tq = P @ tg + p - Rq @ p
            if not in_group(np.round(Rq).astype(int), _mod1(tq)):
                bad = "N g N^-1 is not an operation of the group for g = (%s | %s)" % (Rg.tolist(), tg.tolist()); break
        if bad:
            rec.violation(M_NORM, "C14|normalizer|not-normalizer|%d|%d" % (no, idx), "entry %d of group %d does not map the standard-setting group onto itself: %s" % (idx, no, bad), wit)
        if np.abs(P.T @ G @ P - G).max() > 1e-7 * np.abs(G).max():
            rec.violation(M_NORM, "C14|normalizer|metric|%d|%d" % (no, idx), "entry %d of group %d does not preserve the metric of a generic %s lattice" % (idx, no, cg.crystal_system(no)), wit)
        if sohncke and np.linalg.det(P) < 0:
            rec.violation(M_NORM, "C14|normalizer-improper|%d|%d" % (no, idx), "entry %d of chiral (Sohncke) group %d has determinant -1" % (idx, no), wit)
        perm = entry["permutations"]
        if sorted(perm.keys()) != letters or sorted(perm.values()) != letters:
            rec.violation(M_NORM, "C14|normalizer|permutation-not-bijective|%d|%d" % (no, idx), "letter permutation is not a bijection of the group's letters", wit)
        if bad:
            continue
        # letter permutation on probe crystals
        for letter, (atoms, z1) in probes.items():
            from ase import Atoms
            rec.call(M_NORML)
            f = atoms.get_scaled_positions()
            moved = Atoms(numbers=atoms.get_atomic_numbers(), scaled_positions=_mod1(f @ P.T + p), cell=atoms.get_cell().array, pbc=True)
            got, why = controlled_letters(moved, no, z1)
            if got is None:
                rec.ood(M_NORML); rec.note("normalizer_probe_uncontrolled:%s" % why); continue
            rec.judged(M_NORML)
            if got != perm.get(letter):
                rec.violation(M_NORML, "C14|normalizer|permutation|%d|%d|%s" % (no, idx, letter),
                              "normalizer %d of group %d maps a %s orbit onto a %r orbit (spglib), the table says %r" % (idx, no, letter, got, perm.get(letter)),
                              dict(wit, input=sym.describe(moved)))
    return keys


def run_case(case):
    no = case["group_no"]
    rng = np.random.default_rng(case["seed"])
    rec = core.Recorder(max_witnesses=3)
    core.set_recorder(rec)
    keys = set()
    try:
        walk_info(rec, no)
        keys.add("info|%d" % no)
        try:
            getters_on_crystal(rec, no, rng)
        except Exception as e:
            rec.violation(M_INFO + ":getters", "C14|getter|exception|%s|%d" % (type(e).__name__, no), "getters raised %r" % (e,), {"group": no})
        k1, probes = walk_wyckoff(rec, no, rng, case["draws"])
        keys |= k1
        keys |= walk_normalizers(rec, no, rng, probes)
    finally:
        core.set_recorder(None)
    out = rec.export()
    out["info"] = {"keys": sorted(keys), "nontrivial": True, "classes": {"crystal_system": cg.crystal_system(no)}, "n_exec": len(keys)}
    out["sample"] = {"group": no, "entries_walked": len(keys), "letters_with_probe": sorted(probes)}
    from matid.data.symmetry_data import CHIRALITY_PRESERVING_EUCLIDEAN_NORMALIZERS as NT, WYCKOFF_SETS
    out["data"] = {"table_normalizers": len(NT.get(no, [])), "table_positions": len([k for k in WYCKOFF_SETS[no] if k != "translations"]),
                   "walked_normalizers": sum(1 for k in keys if k.startswith("normalizer|")),
                   "walked_positions": sum(1 for k in keys if k.startswith("wyckoff|"))}
    return out


def offline(cases, results, tier):
    tot = {"table_normalizers": 0, "table_positions": 0, "walked_normalizers": 0, "walked_positions": 0}
    groups = 0
    for c, r in zip(cases, results):
        if r["status"] == "ok":
            groups += 1
            for k in tot:
                tot[k] += (r["result"].get("data") or {}).get(k, 0)
    viols = []
    if groups == 230 and (tot["table_normalizers"] != tot["walked_normalizers"] or tot["table_positions"] != tot["walked_positions"]
                          or tot["table_positions"] != 1731):
        viols.append((None, {"monitor": "table_walk_complete", "key": "C14|walk-incomplete", "what": "the walk did not cover the live tables: %r" % tot, "witness": tot}))
    return viols, dict(tot, groups_walked=groups)
