"""C06 - symmetry results are a normal form: independent of how the crystal is presented.

Relational (offline) checker over the recorded observations: every crystal is analysed in >= 3 presentations,
the members of one crystal run in worker processes with different PYTHONHASHSEED; labels, Wyckoff multisets and
(for cubic crystals without free parameters) the conventional cell itself must be identical."""
import numpy as np

from checks import symfam
from monitors import sym

ID = "C06"
LEVEL = "exploration"
RULE = ("the C05 crystal family (all 230 groups) x presentations (as generated, supercell |det|<=4, unimodular basis change, "
        "random proper rotation, translation in [-5,5] A, permutation, wrapped/unwrapped); the offline checker compares "
        "material id, space group / Hall number, point group, Bravais lattice, crystal system, multiset of (letter, "
        "element, multiplicity), has-free-parameters flag across the presentations of one crystal, and the conventional "
        "cell for cubic crystals without free parameters. Non-trivial = crystal with >= 2 analysed presentations; "
        "distinct = (group, orbit kinds, n atoms, presentation)")
ASSUMPTIONS = ["spglib 2.7 (conditioning filter: the group must be stable over tol/10..10 tol for every presentation)",
               "re-presentations are exact symmetry-preserving transformations (integer supercells, orthogonal rotations)"]
CASE_TIMEOUT = 240
BUDGET_S = {"quick": 600, "thorough": 3000}
REL = "normal_form_relation"
worker_init = symfam.worker_init
LABELS = ["material_id", "number", "hall_number", "point_group", "bravais", "crystal_system", "sets", "has_free"]


def floors(tier):
    return {REL: 400 if tier == "quick" else 10000}


def gen_cases(tier, seed):
    pseudo = symfam.gen_pseudo_cases(tier, seed, 6, 1, n_pres=2) if tier == "quick" else \
        symfam.gen_pseudo_cases(tier, seed, 6, 4, n_pres=3, groups=range(1, 195))
    return _gen_cases(tier, seed) + pseudo


def _gen_cases(tier, seed):
    if tier == "quick":
        return symfam.gen_cases(tier, seed, 6, per_group=1, n_pres=3, extra_random=20) + symfam.gen_letter_cases(tier, seed, 6, 2, n_pres=3) + symfam.gen_fixed_cases(tier, seed, 6, 6, n_pres=3)
    return symfam.gen_cases(tier, seed, 6, per_group=10, n_pres=6, extra_random=600) + symfam.gen_letter_cases(tier, seed, 6, 20, n_pres=4) + symfam.gen_fixed_cases(tier, seed, 6, 60, n_pres=4)


def run_case(case):
    out, obs, atoms, meta = symfam.run_crystal_case(case, ("labels", "conv", "sets"), "analysis_exceptions", "C06")
    if atoms is not None:
        out["data"]["input"] = sym.describe(atoms)
    return out


def _posset_equal(za, fa, zb, fb, tol=1e-6):
    if sorted(za) != sorted(zb):
        return False
    fa = np.asarray(fa); fb = np.asarray(fb); za = np.asarray(za); zb = np.asarray(zb)
    used = np.zeros(len(fb), bool)
    for z, x in zip(za, fa):
        cand = np.nonzero((zb == z) & ~used)[0]
        if not len(cand):
            return False
        d = fb[cand] - x
        d -= np.round(d)
        k = np.argmin(np.abs(d).max(axis=1))
        if np.abs(d[k]).max() > tol:
            return False
        used[cand[k]] = True
    return True


def offline(cases, results, tier):
    by = {}
    for c, r in zip(cases, results):
        if r["status"] == "ok" and not r["result"].get("discarded") and (r["result"].get("data") or {}).get("obs"):
            by.setdefault(c["crystal"], []).append((c, r))
    viols = []
    mon = {"calls": 0, "judged": 0, "ood": 0, "viol": 0}
    hashpairs = 0
    cubic_cells = 0
    for cid, members in by.items():
        if len(members) < 2:
            continue
        c0, r0 = members[0]
        o0 = r0["result"]["data"]["obs"]
        for c, r in members[1:]:
            o = r["result"]["data"]["obs"]
            mon["calls"] += 1
            mon["judged"] += 1
            if r.get("hashseed") != r0.get("hashseed"):
                hashpairs += 1
            diffs = [k for k in LABELS if o.get(k) != o0.get(k)]
            wit = {"input_a": r0["result"]["data"].get("input"), "input_b": r["result"]["data"].get("input"), "group": c["group_no"],
                   "symmetry_tol": symfam.TOL, "hashseed_a": r0.get("hashseed"), "hashseed_b": r.get("hashseed"),
                   "a": {k: o0.get(k) for k in LABELS}, "b": {k: o.get(k) for k in LABELS}}
            if diffs:
                mon["viol"] += 1
                viols.append((c["idx"], {"monitor": REL, "key": "C06|label-differs|%s" % "+".join(diffs),
                                         "what": "presentations %d and %d of one crystal (group %d) differ in %s: %r vs %r"
                                         % (c0["pres"], c["pres"], c["group_no"], diffs, [o0.get(k) for k in diffs][:2], [o.get(k) for k in diffs][:2]),
                                         "witness": wit}))
                continue
            if o0.get("crystal_system") == "cubic" and o0.get("has_free") is False and o0.get("conv_scaled") and o.get("conv_scaled"):
                cubic_cells += 1
                cp0, cp = np.array(o0["conv_cellpar"]), np.array(o["conv_cellpar"])
                same = np.abs(cp0 - cp).max() <= 1e-6 * max(1.0, cp0.max()) and \
                    _posset_equal(o0["conv_numbers"], o0["conv_scaled"], o["conv_numbers"], o["conv_scaled"])
                if not same:
                    mon["viol"] += 1
                    viols.append((c["idx"], {"monitor": REL, "key": "C06|conventional-cell-differs",
                                             "what": "cubic crystal without free parameters (group %d): conventional cells of two presentations differ" % c["group_no"],
                                             "witness": wit}))
    return viols, {"monitors": {REL: mon}, "pairs_across_hash_seeds": hashpairs, "cubic_cells_compared": cubic_cells,
                   "crystals_compared": sum(1 for m in by.values() if len(m) >= 2),
                   "generator_discards": symfam.generator_summary(results)}
