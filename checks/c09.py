"""C09 - dimensionality is the rank of the periodic bonding network, however presented.

Deciding monitor: postcondition on matid.geometry.get_dimensionality (package + module binding, so the calls
PeriodicFinder makes on prototype cells are observed in situ) against the union-find / cycle-lattice model in
oracles/periodic_rank.py; plus a relational check (supercell, basis change, rigid motion, permutation, lattice
shifts of single atoms) on every generated system.
"""
import os

import numpy as np
from ase import Atoms

from harness import env
from monitors import core, geom
from gen import cells
from oracles import periodic_rank as prank
from oracles import mic as omic

ID = "C09"
LEVEL = "exploration"
RULE = ("cases = batches of random systems (1-30 atoms shaped as gases, layers, chains, blobs, lattices and 'impurity' cells - one uniquely large atom bonded to its own image - in orthogonal/skewed/"
        "sheared cells of 0.5-30 A, all 8 pbc masks, thresholds 0.3-3.5 A, covalent/vdw/custom radii, atoms inside the "
        "cell or shifted by up to +-5 lattice vectors), each judged against the cycle-rank oracle and re-evaluated under "
        "supercell / basis change / leaning non-periodic cell vectors / rigid motion / permutation / single-atom lattice shifts; installed binding, fresh "
        "build, ASan+UBSan build; plus in-situ calls from SBC/Classifier runs. Non-trivial = periodic system whose "
        "bonding graph has at least one edge; distinct = (shape, cell kind, pbc, expected value, presentation, lane)")
ASSUMPTIONS = ["numpy matrix_rank on small integer matrices", "ASE radii tables as the documented presets",
               "inputs whose integer cycle rank differs from the GF(2) rank are outside the explored family (counted)",
               "inputs with a pair within 1e-9 of the bonding threshold are ill-conditioned (counted, not judged)"]
CASE_TIMEOUT = 300
BUDGET_S = {"quick": 600, "thorough": 3000}
NAME = "dimensionality_post"
REL = "dimensionality_invariance"


def floors(tier):
    return {NAME: 800 if tier == "quick" else 20000, REL: 500 if tier == "quick" else 12000}


def gen_cases(tier, seed):
    has_installed = bool([f for f in os.listdir(os.path.join(env.REPO, "matid")) if f.startswith("ext.cpython")])
    ss = np.random.SeedSequence([seed, 9])
    q = tier == "quick"
    plan = [("plain", 24 if q else 480, 25), ("san", 6 if q else 60, 12)]
    if has_installed:
        plan.insert(0, ("installed", 12 if q else 240, 25))
    cases = []
    for lane, nb, bsize in plan:
        for child in ss.spawn(nb):
            cases.append({"kind": "direct", "lane": lane, "seed": int(child.generate_state(1)[0]), "n": bsize})
    for lane, nb in (("plain", 10 if q else 120), ("san", 2 if q else 20)):
        for child in ss.spawn(nb):
            cases.append({"kind": "pipeline", "lane": lane, "seed": int(child.generate_state(1)[0])})
    return cases


_state = {}


def resolve_radii(radii, numbers):
    from ase.data import covalent_radii
    from ase.data.vdw_alvarez import vdw_radii
    numbers = np.asarray(numbers)
    if isinstance(radii, str):
        if radii == "covalent":
            return np.asarray(covalent_radii)[numbers]
        if radii == "vdw":
            return np.asarray(vdw_radii)[numbers]
        if radii == "vdw_covalent":
            v = np.asarray(vdw_radii)[numbers]
            c = np.asarray(covalent_radii)[numbers]
            return np.where(np.isnan(v), c, v)
        return None
    return np.asarray(radii, float)


def make_exact_system(rng):
    """Exact-boundary members: every coordinate, radius and the threshold are small dyadic rationals, the cell is
    axis-aligned with power-of-two lengths, and nearest neighbours sit EXACTLY at distance - r_i - r_j == threshold
    (the statement says <=).  Only arrangements whose deciding distances are computed without rounding are generated:
    bonds along non-periodic axes between atoms that agree in every periodic coordinate, and a single atom bonded to
    its own images (the library wraps periodic coordinates through a fractional round trip, so other exact-boundary
    pairs are decided by rounding noise: those stay out of domain as `ill_conditioned_threshold`)."""
    r, thr = [(0.5, 1.0), (0.75, 0.5), (1.0, 2.0), (0.5, 0.5), (0.25, 1.5), (0.75, 1.0)][int(rng.integers(6))]
    s = 2 * r + thr
    pbc = np.array(cells.PBCS[int(rng.integers(8))])
    if rng.random() < 0.3 and pbc.any():
        # one atom, periodic cell lengths exactly 2r + thr (or twice that: not bonded)
        L = [s * int(rng.choice([1, 1, 2])) if pbc[i] else 4.0 for i in range(3)]
        atoms = Atoms(numbers=[6], positions=[[0.5, 0.5, 0.5]], cell=np.diag(L), pbc=pbc)
        return atoms, thr, np.array([r]), "self_image"
    N = [i for i in range(3) if not pbc[i]]
    if not N:
        pbc[int(rng.integers(3))] = False
        N = [i for i in range(3) if not pbc[i]]
    counts = [int(rng.integers(1, 4)) if i in N else 1 for i in range(3)]
    if np.prod(counts) == 1:
        counts[N[0]] = 2
    L = [16.0 if pbc[i] else max(4.0, 2.0 ** np.ceil(np.log2(counts[i] * s + 1))) for i in range(3)]
    pos = []
    for ix in range(counts[0]):
        for iy in range(counts[1]):
            for iz in range(counts[2]):
                pos.append([0.5 + ix * s, 0.5 + iy * s, 0.5 + iz * s])
    pos = np.array(pos)
    if rng.random() < 0.4 and len(pos) > 2:            # knock one site out: components / rank change
        pos = np.delete(pos, int(rng.integers(len(pos))), axis=0)
    atoms = Atoms(numbers=[6] * len(pos), positions=pos, cell=np.diag(L), pbc=pbc)
    return atoms, thr, np.full(len(pos), r), "exact_grid"


def make_near_limit_system(rng):
    """Chains along a Cartesian axis whose links are almost as long as the neighbour cutoff allows (0.9-0.995 of
    threshold + 2 r_max, all atoms carrying the largest radius), alternating with short links: the bonds a spatial
    search loses first when its bins or its extension are a little too small."""
    r = float(rng.uniform(0.5, 1.5))
    thr = float(rng.uniform(0.3, 3.0))
    limit = thr + 2 * r
    n = int(rng.integers(3, 8))
    f = [float(rng.uniform(0.9, 0.995)) if rng.random() < 0.6 else float(rng.uniform(0.45, 0.7)) for _ in range(n - 1)]
    ax = int(rng.integers(3))
    x = np.concatenate([[0.0], np.cumsum(f) * limit])
    L = np.array([float(rng.uniform(3.0, 8.0)) for _ in range(3)])
    L[ax] = x[-1] + float(rng.uniform(0.3, 4.0)) * limit
    pos = np.zeros((n, 3))
    pos[:, ax] = x + float(rng.uniform(0.0, L[ax] - x[-1]))
    for a in range(3):
        if a != ax:
            pos[:, a] = float(rng.uniform(0, L[a]))
    pbc = np.array(cells.PBCS[int(rng.integers(8))])
    atoms = Atoms(numbers=[6] * n, positions=pos, cell=np.diag(L), pbc=pbc)
    return atoms, thr, np.full(n, r)


def judge_call(rec, system, threshold, radii, result, return_clusters, context, presentation="base", exact=False):
    """Compares one get_dimensionality result with the oracle.  Returns the oracle info (or None if not judged)."""
    rec.call(NAME)
    lane = _state["lane"]
    pos = system.get_positions()
    cell = system.get_cell().array
    pbc = np.array(system.get_pbc(), bool)
    n = len(system)
    rr = resolve_radii(radii, system.get_atomic_numbers())
    if n == 0 or rr is None or len(rr) != n or not np.all(np.isfinite(rr)) or np.any(rr < 0):
        rec.ood(NAME); return None
    P = [i for i in range(3) if pbc[i]]
    if P and np.linalg.matrix_rank(cell[P]) < len(P):
        rec.ood(NAME); return None
    try:
        exp, info = prank.expected_dimensionality(pos, cell, pbc, rr, threshold, band=0.0 if exact else 1e-9)
    except OverflowError:
        rec.ood(NAME); return None
    if exact:
        rec.note("exact_boundary_systems_judged")
    if info["borderline"]:
        rec.note("ill_conditioned_threshold"); rec.ood(NAME); return None
    if info["rank_z"] != info["rank_gf2"] and info["n_components"] == 1:
        rec.note("rank_z_differs_from_gf2"); rec.ood(NAME); return None
    dim = result[0] if return_clusters else result
    wit = geom.structure_witness(pos, cell, pbc, numbers=system.get_atomic_numbers().tolist(), radii=np.asarray(rr).tolist(),
                                 threshold=repr(threshold), lane=lane, context=context, presentation=presentation,
                                 expected=exp, got=dim, n_edges=info["n_edges"], n_components=info["n_components"])
    rec.judged(NAME)
    inside = geom.inside_cell(pos, cell)
    if dim != exp or (dim is not None and not isinstance(dim, (int, np.integer))):
        kind = "none-vs-value" if (dim is None) != (exp is None) else "wrong-rank"
        rec.violation(NAME, "C09|%s|%s" % (kind, "inside-cell" if inside else "unwrapped"),
                      "get_dimensionality returned %r, periodic bonding network has %s" %
                      (dim, "more than one component" if exp is None else "rank %r" % exp), wit)
    if return_clusters:
        got = sorted(sorted(int(x) for x in c) for c in result[1])
        if got != info["components"]:
            rec.violation(NAME, "C09|clusters|%s" % ("inside-cell" if inside else "unwrapped"),
                          "returned 1x clusters differ from the connected components of the bonding graph", wit)
    info["expected"] = exp
    return info


def worker_init(lane):
    import matid.geometry
    import matid.geometry.geometry as gg
    _state["lane"] = lane
    _state["context"] = "direct"

    def post(rec, snap, result, exc, system, cluster_threshold=None, dist_matrix_radii_mic_1x=None,
             return_clusters=False, radii="covalent"):
        if _state["context"] == "direct":
            return      # direct calls are judged by the driver (it knows the presentation)
        if cluster_threshold is None:
            from matid.data.constants import CLUSTER_THRESHOLD
            cluster_threshold = CLUSTER_THRESHOLD
        if exc is not None:
            rec.call(NAME)
            rec.violation(NAME, "C09|exception|%s" % type(exc).__name__, "get_dimensionality raised %r in situ" % (exc,), {})
            return
        if snap is not None:          # a precomputed matrix was passed: the function is not evaluated on the system alone
            rec.call(NAME); rec.ood(NAME); rec.note("insitu_with_precomputed_matrix"); return
        judge_call(rec, system, cluster_threshold, radii, result, return_clusters, _state["context"], "in-situ")

    def pre(system, cluster_threshold=None, dist_matrix_radii_mic_1x=None, return_clusters=False, radii="covalent"):
        return True if dist_matrix_radii_mic_1x is not None else None

    core.bind([matid.geometry, gg], "get_dimensionality", core.observe(post, pre))


VDW_OK = [1, 6, 7, 8, 13, 14, 16, 22, 26, 29, 30, 47, 55, 74, 79, 82]


HEAVY = [19, 37, 38, 55, 56]


def make_impurity_system(rng):
    """One atom with a uniquely large radius that bonds to its OWN periodic image along one or two short cell vectors,
    decorated with a few light atoms: the self-image bond is the only link along those directions."""
    from ase import Atoms
    from ase.data import covalent_radii
    zh = int(rng.choice(HEAVY))
    nl = int(rng.integers(1, 5))
    zl = rng.choice([1, 6, 7, 8], size=nl)
    thr = float(rng.uniform(0.3, 1.5))
    r1 = covalent_radii[zh]
    r2 = max(covalent_radii[z] for z in zl)
    lengths = rng.uniform(9.0, 14.0, size=3)
    k = int(rng.integers(1, 3))
    for ax in rng.choice(3, size=k, replace=False):
        lengths[ax] = rng.uniform(thr + r1 + r2 + 0.05, thr + 2 * r1 - 0.05)
    cell = np.diag(lengths)
    if rng.random() < 0.5:
        cell = cell @ cells.random_rotation(rng).T
    centre = rng.random(3) @ cell
    pos = [centre]
    for z in zl:
        d = rng.normal(size=3); d /= np.linalg.norm(d)
        pos.append(centre + d * (r1 + covalent_radii[z] + rng.uniform(-0.3, min(0.2, thr - 0.05))))
    pbc = np.array(cells.PBCS[int(rng.integers(1, 8))])
    a = Atoms(numbers=[zh] + [int(z) for z in zl], positions=np.array(pos), cell=cell, pbc=pbc)
    a.wrap()
    return a, thr


def make_system(rng):
    from ase import Atoms
    shape = ["gas", "layer", "chain", "blob", "lattice"][int(rng.integers(5))]
    lo = float(rng.choice([0.8, 2.0, 4.0, 8.0]))
    cell, kind = cells.random_cell(rng, lo=lo, hi=lo + float(rng.choice([4.0, 10.0, 22.0])))
    pbc = np.array(cells.PBCS[int(rng.integers(8))])
    n = int(rng.integers(1, 31))
    s = rng.random((n, 3))
    if shape == "layer":
        ax = int(rng.integers(3)); s[:, ax] = 0.5 + rng.normal(scale=0.02, size=n)
    elif shape == "chain":
        ax = int(rng.integers(3))
        for a in range(3):
            if a != ax:
                s[:, a] = 0.5 + rng.normal(scale=0.02, size=n)
        s[:, ax] = (np.arange(n) + rng.normal(scale=0.1, size=n)) / n
    elif shape == "blob":
        s = 0.5 + rng.normal(scale=0.08, size=(n, 3))
    elif shape == "lattice":
        k = int(rng.integers(1, 4))
        g = np.array([(i, j, l) for i in range(k) for j in range(k) for l in range(k)], float) / k
        s = g[:n] + rng.normal(scale=0.01, size=(min(n, len(g)), 3))
        n = len(s)
    s = s % 1.0
    pos = s @ cell
    # a share of systems made of light elements only (more atoms than the largest atomic number: per-atom arrays
    # must never be mistaken for tables indexed by atomic number)
    z = rng.choice(VDW_OK[:4], size=n) if rng.random() < 0.2 else rng.choice(VDW_OK, size=n)
    return Atoms(numbers=z, positions=pos, cell=cell, pbc=pbc), shape, kind


def variants(rng, atoms):
    """Presentations of the same periodic structure."""
    from ase import Atoms
    out = []
    pbc = np.array(atoms.get_pbc(), bool)
    cell = atoms.get_cell().array
    pos = atoms.get_positions()
    z = atoms.get_atomic_numbers()
    n = len(atoms)
    P = [i for i in range(3) if pbc[i]]
    # lattice-vector shifts of individual atoms
    sh = rng.integers(-5, 6, size=(n, 3)) * pbc[None, :]
    out.append(("lattice_shifts", Atoms(numbers=z, positions=pos + sh @ cell, cell=cell, pbc=pbc), None))
    # permutation
    perm = rng.permutation(n)
    out.append(("permutation", Atoms(numbers=z[perm], positions=pos[perm], cell=cell, pbc=pbc), perm))
    # rigid motion
    R = cells.random_rotation(rng)
    t = rng.uniform(-5, 5, 3)
    out.append(("rigid_motion", Atoms(numbers=z, positions=pos @ R.T + t, cell=cell @ R.T, pbc=pbc), None))
    # supercell along periodic axes
    if P and n <= 12:
        reps = [int(rng.integers(1, 3)) if pbc[i] else 1 for i in range(3)]
        if np.prod(reps) > 1:
            out.append(("supercell", atoms.repeat(reps), "tile"))
    # re-description of the NON-periodic cell vectors: they only delimit the box, so letting them lean over the
    # periodic ones (c' = c + t.a) describes the same structure
    NP = [i for i in range(3) if not pbc[i]]
    if P and NP:
        newcell = cell.copy()
        for i in NP:
            for j in P:
                newcell[i] = newcell[i] + float(rng.uniform(-2.0, 2.0)) * cell[j]
        if abs(np.linalg.det(newcell)) > 1e-6:
            out.append(("leaning_nonperiodic_vector", Atoms(numbers=z, positions=pos, cell=newcell, pbc=pbc), None))
    # basis change among periodic axes
    if len(P) >= 2:
        M = np.eye(3, dtype=int)
        i, j = rng.choice(P, size=2, replace=False)
        M[i, j] = int(rng.choice([-2, -1, 1, 2]))
        out.append(("basis_change", Atoms(numbers=z, positions=pos, cell=M @ cell, pbc=pbc), None))
    return out


def run_direct(case, rec):
    import matid.geometry
    lane = _state["lane"]
    rng = np.random.default_rng(case["seed"])
    _state["context"] = "direct"
    keys, n_exec, sample = set(), 0, None
    classes = {"shape": [], "cell_kind": [], "pbc": [], "expected": [], "radii": [], "presentation": []}
    for it in range(case["n"]):
        exact = False
        if rng.random() < 0.10:
            atoms, thr, exact_radii, shape = make_exact_system(rng)
            kind, n, rmode, exact = "orthogonal", len(atoms), "custom", True
        elif rng.random() < 0.10:
            atoms, thr, exact_radii = make_near_limit_system(rng)
            shape, kind, n, rmode = "near_limit_chain", "orthogonal", len(atoms), "custom"
        elif rng.random() < 0.12:
            atoms, thr = make_impurity_system(rng)
            shape, kind = "impurity", "orthogonal"
            n = len(atoms)
            rmode = "covalent"
        else:
            atoms, shape, kind = make_system(rng)
            n = len(atoms)
            thr = float(rng.uniform(0.3, 3.5)) if rng.random() < 0.6 else float(rng.uniform(0.3, 1.0))
            rmode = ["covalent", "vdw", "custom"][int(rng.integers(3))]
        radii = rmode if rmode != "custom" else rng.uniform(0.3, 1.8, size=n)
        if exact or shape == "near_limit_chain":
            radii = exact_radii
        rr = resolve_radii(radii, atoms.get_atomic_numbers())
        cutoff = thr + 2 * rr.max()
        h = omic.heights(atoms.get_cell().array, atoms.get_pbc())
        nimg = np.prod([2 * int(np.ceil(cutoff / h[i])) + 1 if atoms.pbc[i] else 1 for i in range(3)])
        if nimg * n * (2 ** int(atoms.pbc.sum())) > 150000:
            continue
        pres = [("base", atoms, None)] + ([] if exact else variants(rng, atoms))
        if exact:        # exactness survives a permutation and nothing else
            perm = rng.permutation(n)
            pres.append(("permutation", atoms[[int(i) for i in perm]], perm))
        base_dim = None
        for pname, sysm, aux in pres:
            rad = radii
            if rmode == "custom":
                if pname == "permutation":
                    rad = radii[aux]
                elif pname == "supercell":
                    rad = np.tile(radii, len(sysm) // n)
            rc = bool(rng.random() < 0.5)
            try:
                res = matid.geometry.get_dimensionality(sysm, thr, radii=rad, return_clusters=rc)
            except Exception as e:
                rec.call(NAME)
                rec.violation(NAME, "C09|exception|%s" % type(e).__name__, "get_dimensionality raised %r" % (e,),
                              geom.structure_witness(sysm.get_positions(), sysm.get_cell().array, sysm.get_pbc(),
                                                     numbers=sysm.get_atomic_numbers().tolist(), threshold=repr(thr), lane=lane,
                                                     presentation=pname))
                continue
            n_exec += 1
            info = judge_call(rec, sysm, thr, rad, res, rc, "direct", pname, exact=exact)
            dim = res[0] if rc else res
            if pname == "base":
                base_dim = dim
                base_info = info
            elif info is not None and base_info is not None:
                rec.call(REL)
                if pname == "supercell" and info["expected"] != base_info["expected"]:
                    # repeating along a direction in which the network is NOT connected to its images creates
                    # disconnected copies: by the property's own first clause the value legitimately becomes None
                    rec.ood(REL); rec.note("supercell_disconnects_network"); continue
                rec.judged(REL)
                if dim != base_dim:
                    rec.violation(REL, "C09|invariance|%s" % pname,
                                  "dimensionality changed from %r to %r under %s" % (base_dim, dim, pname),
                                  geom.structure_witness(atoms.get_positions(), atoms.get_cell().array, atoms.get_pbc(),
                                                         numbers=atoms.get_atomic_numbers().tolist(), threshold=repr(thr),
                                                         radii=np.asarray(rr).tolist(), lane=lane, presentation=pname))
            if info is not None:
                classes["presentation"].append(pname)
                if atoms.pbc.any() and info["n_edges"] > 0:
                    keys.add("%s|%s|%s|%s|%s|%s" % (shape, kind, "".join("TF"[not b] for b in atoms.pbc), info["expected"], pname, lane))
        if base_info is not None:
            classes["shape"].append(shape); classes["cell_kind"].append(kind)
            classes["pbc"].append("".join("TF"[not b] for b in atoms.pbc)); classes["expected"].append(str(base_info["expected"]))
            classes["radii"].append(rmode)
            if sample is None:
                sample = {"numbers": atoms.get_atomic_numbers().tolist(), "positions": atoms.get_positions().round(3).tolist(),
                          "cell": atoms.get_cell().array.round(3).tolist(), "pbc": atoms.get_pbc().tolist(), "threshold": thr,
                          "radii": rmode, "expected": base_info["expected"], "got": base_dim,
                          "presentations": [p[0] for p in pres]}
    return n_exec, keys, classes, sample


def run_pipeline(case, rec):
    from gen import structures
    import matid
    rng = np.random.default_rng(case["seed"])
    _state["context"] = "pipeline"
    atoms, meta = structures.random_structure(rng, max_atoms=120)
    before = rec.counter(NAME)["judged"]
    which = "SBC" if rng.random() < 0.7 else "Classifier"
    try:
        if which == "SBC":
            matid.SBC().get_clusters(atoms)
        else:
            matid.Classifier().classify(atoms)
    except Exception as e:
        rec.note("pipeline_exception:%s" % type(e).__name__)
    judged = rec.counter(NAME)["judged"] - before
    keys = set()
    if judged:
        keys.add("pipeline|%s|%s|%s" % (which, meta["family"], meta["pbc"]))
    return 1, keys, {"pipeline": which, "family": meta["family"]}, \
        {"pipeline": which, "family": meta["family"], "natoms": len(atoms), "insitu_calls_judged": judged}


def run_case(case):
    rec = core.Recorder()
    core.set_recorder(rec)
    try:
        if case["kind"] == "direct":
            n_exec, keys, classes, sample = run_direct(case, rec)
        else:
            n_exec, keys, classes, sample = run_pipeline(case, rec)
    finally:
        core.set_recorder(None)
    out = rec.export()
    out["info"] = {"keys": sorted(keys), "nontrivial": bool(keys), "classes": classes, "n_exec": n_exec}
    out["sample"] = sample
    return out


def crash_key(case, rep):
    return "C09|crash|%s|%s" % (case.get("lane"), rep.get("signal") or rep.get("returncode"))
