"""C18 - Classifier recognises pristine slabs and monolayers and isolates adsorbates.

Case rule on Classifier().classify(structure): slab (+0-2 foreign adsorbates) -> Surface with outliers exactly the
adsorbate atoms; monolayer supercell -> Material2D without outliers.  The C17 postcondition is evaluated in situ as
well.  Enumerated cells (gen/slabs.c18_cells) x presentation pool (rotation, translation, permutation)."""
import numpy as np

from checks import c17 as c17mod
from gen import slabs, structures
from monitors import core, pipeline
from harness import main as hmain

ID = "C18"
LEVEL = "exploration"
RULE = ("enumerated cells: (100)/(110)/(111)/(001) slabs of the 65 reference elements (bcc only (100)/(001); hcp without "
        "(111)) and 16 compound prototypes x 3-5 layers x 0-2 adsorbates (species absent from the slab, on top of a surface "
        "atom at covalent bonding distance + 0.2 A), lateral size >= 9 A, fully periodic with 10 A vacuum; monolayers "
        "(graphene, h-BN, 2H/1T MX2) 3x3-6x6; presentation = random SO(3) rotation, translation, permutation from the cell's "
        "pool for VERIF_SEED mod 4. Cells failing the independent bonding/overlap/connectivity precondition are discarded "
        "and counted. thorough = all cells, quick = VERIF_SEED-chosen subset + a sample of the listed findings' cells. distinct = cell keys judged")
ASSUMPTIONS = ["ASE builders", "brute-force bonding precondition (ASE covalent radii)", "default Classifier parameters"]
CASE_TIMEOUT = 900
BUDGET_S = {"quick": 900, "thorough": 3400}
NAME = "recognition_rule"


def worker_init(lane):
    c17mod.worker_init(lane)


def floors(tier):
    return {NAME: 40 if tier == "quick" else 900}


def gen_cases(tier, seed):
    universe = slabs.c18_cells()
    sc = seed % 4
    if tier == "thorough":
        chosen = universe
    else:
        rng = np.random.default_rng([seed, 18])
        chosen = [universe[i] for i in rng.choice(len(universe), size=110, replace=False)]
        mono = [c for c in universe if c["kind"] == "monolayer"]
        have = {c["key"] for c in chosen}
        chosen += [c for c in [mono[i] for i in rng.choice(len(mono), size=6, replace=False)] if c["key"] not in have]
        listed = {f["key"].split("|", 1)[1] for f in hmain.load_known(ID) if f["key"].startswith("C18|")}
        have = {c["key"] for c in chosen}
        extra = [c for c in universe if c["key"] in listed and c["key"] not in have]
        if len(extra) > 8:           # re-observe a sample of the listed cells (classification is slow)
            extra = [extra[i] for i in rng.choice(len(extra), size=8, replace=False)]
        chosen += extra
    return [{"cell": c, "seed_class": sc, "k": 0} for c in chosen]


def run_case(case):
    import matid
    from matid.classification import classifications as K
    cell = case["cell"]
    rec = core.Recorder()
    info0 = {"nontrivial": False, "classes": {}}
    rng = np.random.default_rng(slabs.stable_seed(cell["key"], case["seed_class"], case["k"]))
    try:
        base, ads, proto, prim = slabs.build_c18(cell, rng)
    except Exception as e:
        out = rec.export(); out["discarded"] = "builder:%s" % type(e).__name__; out["info"] = info0
        return out
    if cell["kind"] != "monolayer" and not slabs.primitive_ok(prim):
        out = rec.export(); out["discarded"] = "primitive_cell_too_large"; out["info"] = info0
        return out
    if len(base) > 500:
        out = rec.export(); out["discarded"] = "too_many_atoms"; out["info"] = info0
        return out
    atoms, mapped = slabs.present(base, rng, noise=0.0, track={"ads": ads})
    # decorations that must not matter (own random stream: the presentation itself is unchanged)
    drng = np.random.default_rng(slabs.stable_seed(cell["key"], case["seed_class"], 977))
    decorations = structures.decorate(atoms, drng) if drng.random() < 0.35 else []
    ok, why = slabs.bonding_precondition(atoms)
    if not ok:
        out = rec.export(); out["discarded"] = "precondition:%s" % why; out["info"] = info0
        return out
    core.set_recorder(rec)
    obs = {}
    try:
        rec.call(NAME)
        clf = matid.Classifier()
        c17mod._state["last"] = None
        try:
            res = clf.classify(atoms)
            exc = None
        except Exception as e:
            res, exc = None, e
        if c17mod._state.get("last"):
            snap, after, result, e2 = c17mod._state["last"]
            pipeline.check_classification(rec, c17mod.NAME, atoms, snap, after, clf, result, e2)
        rec.judged(NAME)
        wit = {"input": pipeline.describe(atoms), "cell": cell, "seed_class": case["seed_class"], "adsorbates": mapped["ads"]}
        want = K.Material2D if cell["kind"] == "monolayer" else K.Surface
        if exc is not None:
            rec.violation(NAME, "C18|%s" % cell["key"], "%s: classify raised %r" % (cell["key"], exc), wit)
        else:
            obs["class"] = type(res).__name__
            if type(res) is not want:
                rec.violation(NAME, "C18|%s" % cell["key"], "%s (%d atoms): classified as %s, expected %s" % (cell["key"], len(atoms), type(res).__name__, want.__name__), wit)
            else:
                outl = sorted(int(i) for i in res.outliers)
                obs["outliers"] = outl
                if outl != sorted(mapped["ads"]):
                    rec.violation(NAME, "C18|%s" % cell["key"], "%s: outliers %s, adsorbate atoms %s" % (cell["key"], outl[:12], sorted(mapped["ads"])), wit)
    finally:
        core.set_recorder(None)
    out = rec.export()
    out["info"] = {"key": cell["key"], "nontrivial": True,
                   "classes": {"decorated": bool(decorations), "prototype": proto, "kind": cell["kind"], "facet": "".join(str(i) for i in cell.get("facet", [])) or "-",
                               "layers": cell.get("layers", 1), "n_ads": cell.get("n_ads", 0), "natoms_bucket": len(atoms) // 50 * 50}}
    out["sample"] = {"cell": cell["key"], "natoms": len(atoms), "adsorbates": mapped["ads"], "observed": obs}
    return out
