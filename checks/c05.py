"""C05 - the conventional cell is the same crystal as the input, chirality preserved.

Deciding monitor: postcondition on SymmetryAnalyzer.get_conventional_system (monitors/sym.py: independent
spglib search on the result, standardized lattice, composition/density, proper-congruence checker)."""
from checks import symfam
from monitors import sym

ID = "C05"
LEVEL = "exploration"
RULE = ("crystals generated in every one of the 230 space groups from ASE's tables (1-3 orbits, general or special "
        "points from the affine-subspace sampler, random species and lattice parameters), analysed as generated and in "
        "re-presentations (supercell |det|<=4 / unimodular basis / rotation / translation / permutation / unwrapped); "
        "ill-conditioned samples (group not stable over a 100x tolerance window) are discarded and counted. "
        "distinct = (group, orbit kinds, n atoms, presentation)")
ASSUMPTIONS = ["spglib 2.7 symmetry search and standardization", "ASE space-group tables (generator only)",
               "lattice point group from spglib on the empty lattice", "symmetry tolerance 0.01 A"]
CASE_TIMEOUT = 240
BUDGET_S = {"quick": 600, "thorough": 3000}
NAME = "conventional_system_post"
worker_init = symfam.worker_init


def floors(tier):
    return {NAME: 400 if tier == "quick" else 12000}


def gen_cases(tier, seed):
    pseudo = symfam.gen_pseudo_cases(tier, seed, 5, 1, n_pres=2) if tier == "quick" else \
        symfam.gen_pseudo_cases(tier, seed, 5, 8, n_pres=3, groups=range(1, 195))
    return _gen_cases(tier, seed) + pseudo


def _gen_cases(tier, seed):
    if tier == "quick":
        return symfam.gen_cases(tier, seed, 5, per_group=1, n_pres=2, extra_random=60, special_bias=0.6) + symfam.gen_letter_cases(tier, seed, 5, 3)
    return symfam.gen_cases(tier, seed, 5, per_group=20, n_pres=3, extra_random=1000, special_bias=0.6) + symfam.gen_letter_cases(tier, seed, 5, 0)


def run_case(case):
    out, obs, atoms, meta = symfam.run_crystal_case(case, ("labels", "conv"), NAME, "C05")
    if obs is not None and obs.get("number") is not None and obs["number"] != case["group_no"]:
        out["violations"].append({"monitor": NAME, "key": "C05|group-differs-from-generator",
                                  "what": "analyzer reports group %s for a well-conditioned crystal of group %d" % (obs["number"], case["group_no"]),
                                  "witness": {"input": sym.describe(atoms), "group": case["group_no"]}})
        out["monitors"].setdefault(NAME, {"calls": 0, "judged": 0, "ood": 0, "viol": 0})["viol"] += 1
    return out


def offline(cases, results, tier):
    groups = set()
    sohncke_special = 0
    for c, r in zip(cases, results):
        if r["status"] == "ok" and not r["result"].get("discarded"):
            groups.add(c["group_no"])
    return [], {"space_groups_reached": len(groups), "space_groups_missing": sorted(set(range(1, 231)) - groups),
                "generator_discards": symfam.generator_summary(results)}
