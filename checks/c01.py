"""C01 - SBC always returns a well-formed, disjoint, connected set of clusters.

Deciding monitor: postcondition on SBC.get_clusters (monitors/pipeline.check_clusters): well-formedness,
disjointness, species, connectivity by an independent brute-force bonding oracle on the caller's structure,
prototype-cell periodicity, bit-exact input snapshot, exception rule; determinism by a repeated call on a fresh
SBC() and by re-running the case in a worker with another PYTHONHASHSEED (offline comparison)."""
import numpy as np

from checks import sbcfam

ID = "C01"
LEVEL = "exploration"
RULE = ("random structure family: gases, rattled/defective/substituted crystals, two crystals in one cell, shared-species stacks, crystallites, nanotubes, ribbons, bilayers, molecules on slabs, amorphous packings, primitive cells, monolayers, "
        "vacancy shells, molecules in a box, slabs; 1-150 atoms (quick) / 1-300 (thorough); all 8 pbc masks; as-built / "
        "rotated / sheared / degenerate (zero non-periodic vectors) cells and zero vectors along periodic axes (must raise "
        "ValueError); wrapped / lattice-shifted / translated-outside positions; varied bond_threshold, pos_tol, "
        "max_cell_size, merge_threshold, radii preset or custom array, seed. Non-trivial = at least one cluster returned, "
        "or a stage recorder saw a merge / reassignment / cleaned atom, or the ValueError path. distinct = (family, pbc, "
        "cell mode, size bucket, varied parameters, number of clusters)")
ASSUMPTIONS = ["brute-force minimum-image oracle (numpy)", "ASE radii tables as presets", "connectivity judged with bond_threshold + 1e-9 (borderline pairs count as bonded)"]
CASE_TIMEOUT = 600
BUDGET_S = {"quick": 800, "thorough": 3300}
worker_init = sbcfam.worker_init


def floors(tier):
    q = tier == "quick"
    return {sbcfam.M_C01: 150 if q else 2500, sbcfam.M_C01 + ":connectivity": 60 if q else 1200, sbcfam.M_DET: 100 if q else 1800}


def gen_cases(tier, seed):
    ss = np.random.SeedSequence([seed, 1])
    q = tier == "quick"
    n = 220 if q else 3400
    cases = []
    for k, child in enumerate(ss.spawn(n)):
        s = int(child.generate_state(1)[0])
        c = {"seed": s, "max_atoms": 110 if q else 300, "allow_invalid": True}
        if k % 6 == 1:          # stratum: small multi-species region at scattered, high indices of a larger system
            c.update(family=["minority_defective", "minority_compound"][(k // 6) % 2], max_atoms=150 if q else 300)
        if k % 5 == 0:          # the same case in both hash-seed groups: offline determinism comparison
            cases.append(dict(c, group=0, pair=k))
            cases.append(dict(c, group=1, pair=k))
        else:
            cases.append(c)
    if not q:
        for child in ss.spawn(150):
            cases.append({"seed": int(child.generate_state(1)[0]), "max_atoms": 120, "lane": "san", "allow_invalid": True})
    return cases


def run_case(case):
    return sbcfam.run_sbc_case(case, want_c13=False, determinism=True)


def offline(cases, results, tier):
    pairs = {}
    for c, r in zip(cases, results):
        if "pair" in c and r["status"] == "ok":
            pairs.setdefault(c["pair"], []).append((c, r))
    mon = {"calls": 0, "judged": 0, "ood": 0, "viol": 0}
    viols = []
    for k, mem in pairs.items():
        if len(mem) != 2:
            continue
        (c0, r0), (c1, r1) = mem
        mon["calls"] += 1; mon["judged"] += 1
        d0, d1 = r0["result"].get("data") or {}, r1["result"].get("data") or {}
        if d0.get("signature") != d1.get("signature") or d0.get("exception") != d1.get("exception"):
            mon["viol"] += 1
            viols.append((c1["idx"], {"monitor": "get_clusters_hashseed_determinism", "key": "C01|nondeterministic|hash-seed",
                                      "what": "the same call gave different results in processes with PYTHONHASHSEED %s and %s" % (r0.get("hashseed"), r1.get("hashseed")),
                                      "witness": {"case": {k2: v for k2, v in c0.items() if k2 != "idx"}}}))
    return viols, {"monitors": {"get_clusters_hashseed_determinism": mon}}


def crash_key(case, rep):
    return "C01|crash|%s|%s" % (case.get("lane", "plain"), rep.get("signal") or rep.get("returncode"))
