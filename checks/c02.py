"""C02 - SBC groups a single crystal (bulk or slab) into exactly one complete cluster.

Case rule on the return value of SBC().get_clusters(structure) with default parameters (the C01 postcondition is
bound as well, in situ): exactly one cluster, containing every atom, dimensionality 3 (bulk) / 2 (slab).  The case
space is finite and enumerated (gen/slabs.py): cells = material x kind x facet x layers x pbc x noise; each cell has
a pool of presentations (rotation, translation, permutation, SBC seed, noise realisation) derived from
(cell key, VERIF_SEED mod 4, k).  An independent bonding precondition discards (and counts) cells outside the
stated family."""
import numpy as np

from checks import sbcfam
from gen import slabs, structures
from monitors import core, pipeline
from harness import main as hmain

ID = "C02"
LEVEL = "exploration"
RULE = ("enumerated cells: 65 reference elements (fcc/bcc/hcp/diamond/sc) + 16 binary/ternary prototypes x {bulk supercell, "
        "(100)/(110)/(111)/(001) slabs x 3-4 layers x pbc TTT/TTF} x noise {0, 0.02, 0.05}; lateral repeats so that periodic "
        "heights exceed 2*max_cell_size; each cell in a presentation (random SO(3) rotation, translation, permutation, SBC "
        "seed) drawn from its pool for the seed class VERIF_SEED mod 4. thorough = every cell, quick = a VERIF_SEED-chosen "
        "subset (+ every listed finding's cell). Cells failing the independent precondition (bonded neighbours with margin, "
        "no overlap, connected, primitive vectors < max_cell_size, <= 6 atoms per primitive cell) are discarded and counted. "
        "distinct = cell keys judged")
ASSUMPTIONS = ["ASE builders and reference lattice constants", "brute-force minimum-image bonding precondition with ASE covalent radii",
               "default SBC parameters (max_cell_size 6, bond_threshold 0.65, pos_tol 0.7)"]
CASE_TIMEOUT = 900
BUDGET_S = {"quick": 900, "thorough": 3400}
NAME = "single_crystal_rule"


def worker_init(lane):
    sbcfam.worker_init(lane)


def floors(tier):
    return {NAME: 60 if tier == "quick" else 1000}


def finding_cells():
    return [f["key"].split("|", 1)[1] for f in hmain.load_known(ID) if f["key"].startswith("C02|")]


def gen_cases(tier, seed):
    universe = slabs.c02_cells()
    sc = seed % 4
    if tier == "thorough":
        chosen = universe
    else:
        rng = np.random.default_rng([seed, 2])
        idx = rng.choice(len(universe), size=170, replace=False)
        chosen = [universe[i] for i in idx]
        # stratum: compounds with three or more atoms per primitive cell (several sublattices: the prototype cell is
        # assembled from more than one basis-atom graph and regions may have to be merged)
        have = {c["key"] for c in chosen}
        multi = [c for c in universe if c["key"] not in have and
                 slabs.COMPOUNDS.get(c["material"], ("",))[0] in ("perovskite", "rutile", "fluorite", "antifluorite", "wurtzite")]
        chosen += [multi[i] for i in rng.choice(len(multi), size=min(70, len(multi)), replace=False)]
        listed = set(finding_cells())
        have = {c["key"] for c in chosen}
        extra = [c for c in universe if c["key"] in listed and c["key"] not in have]
        if len(extra) > 8:           # re-observe a sample of the listed cells
            extra = [extra[i] for i in rng.choice(len(extra), size=8, replace=False)]
        chosen += extra
    return [{"cell": c, "seed_class": sc, "k": 0} for c in chosen]


def run_case(case):
    import matid
    cell = case["cell"]
    rec = core.Recorder()
    out_info = {"nontrivial": False, "classes": {}}
    try:
        base, prim, proto, dim = slabs.build_c02(cell)
    except Exception as e:
        out = rec.export(); out["discarded"] = "builder:%s" % type(e).__name__; out["info"] = out_info
        return out
    if not slabs.primitive_ok(prim):
        out = rec.export(); out["discarded"] = "primitive_cell_too_large"; out["info"] = out_info
        return out
    if len(base) > 700:
        out = rec.export(); out["discarded"] = "too_many_atoms"; out["info"] = out_info
        return out
    rng = np.random.default_rng(slabs.stable_seed(cell["key"], case["seed_class"], case["k"]))
    atoms, _ = slabs.present(base, rng, noise=cell["noise"])
    # decorations that must not matter (own random stream: the presentation itself is unchanged)
    drng = np.random.default_rng(slabs.stable_seed(cell["key"], case["seed_class"], 977))
    decorations = structures.decorate(atoms, drng) if drng.random() < 0.35 else []
    ok, why = slabs.bonding_precondition(atoms)
    if not ok:
        out = rec.export(); out["discarded"] = "precondition:%s" % why; out["info"] = out_info
        return out
    sbc_seed = int(rng.integers(0, 1000))
    core.set_recorder(rec)
    obs = {}
    try:
        rec.call(NAME)
        try:
            clusters = matid.SBC().get_clusters(atoms, seed=sbc_seed)
        except Exception as e:
            clusters = None
            obs["exception"] = repr(e)[:200]
        rec.judged(NAME)
        wit = {"input": pipeline.describe(atoms), "cell": cell, "sbc_seed": sbc_seed, "seed_class": case["seed_class"], "k": case["k"]}
        if clusters is None:
            rec.violation(NAME, "C02|%s" % cell["key"], "get_clusters raised %s" % obs["exception"], wit)
        else:
            obs["n_clusters"] = len(clusters)
            obs["sizes"] = sorted((len(c.indices) for c in clusters), reverse=True)[:6]
            good = len(clusters) == 1 and sorted(int(i) for i in clusters[0].indices) == list(range(len(atoms)))
            d = None
            if good:
                with core.suspend():
                    d = clusters[0].get_dimensionality()
                obs["dimensionality"] = d
            if not good:
                rec.violation(NAME, "C02|%s" % cell["key"], "%s (%d atoms): expected one cluster with every atom, got %d cluster(s) of sizes %s"
                              % (cell["key"], len(atoms), len(clusters), obs["sizes"]), wit)
            elif d != dim:
                rec.violation(NAME, "C02|%s" % cell["key"], "%s: cluster dimensionality %r, expected %d" % (cell["key"], d, dim), wit)
    finally:
        core.set_recorder(None)
    out = rec.export()
    out["info"] = {"key": cell["key"], "nontrivial": True,
                   "classes": {"decorated": bool(decorations), "prototype": proto, "kind": cell["kind"], "facet": "".join(str(i) for i in cell.get("facet", [])) or "-",
                               "pbc": "TTT" if cell.get("pbc_z", True) else "TTF", "noise": cell["noise"], "natoms_bucket": len(atoms) // 50 * 50}}
    out["sample"] = {"cell": cell["key"], "natoms": len(atoms), "observed": obs}
    return out
