"""C19 - radii presets and custom radii are honoured uniformly.

Monitors: postcondition on matid.geometry.get_radii (every call, direct and in situ) against the ASE tables read
directly; equivalence runs: get_dimensionality / SBC.get_clusters with a preset vs. the same numbers as an
explicit per-atom array (the oracle builds the array from the ASE tables, not through MatID)."""
import numpy as np

from monitors import core
from gen import structures

ID = "C19"
LEVEL = "exploration"
EXHAUSTIVE = True
RULE = ("exhaustive table sweep: Z = 1..103 x {covalent, vdw, vdw_covalent} through get_radii (single Z, whole range, "
        "random multisets) + custom arrays; equivalence runs on random structures (C01 family, with a share of atoms "
        "replaced by elements without a tabulated vdW radius: Z in {61,84-88,100-103}) comparing preset vs explicit "
        "array for get_dimensionality and SBC.get_clusters; every internal get_radii call of those runs is judged too. "
        "Non-trivial = equivalence run whose structure has >1 atom, or table entry; distinct = (kind, preset, Z) / "
        "(family, preset, has-undefined-vdw, pbc)")
ASSUMPTIONS = ["ase.data.covalent_radii and ase.data.vdw_alvarez.vdw_radii are the documented tables",
               "preset 'vdw' on an element without vdW radius has no defined value: such equivalence runs are not generated"]
CASE_TIMEOUT = 240
BUDGET_S = {"quick": 600, "thorough": 2400}
M_TAB, M_EQ, M_SITU = "radii_table_post", "preset_vs_array_equivalence", "get_radii_in_situ"
UNDEF = [61, 84, 85, 86, 87, 88, 100, 101, 102, 103]
PRESETS = ["covalent", "vdw", "vdw_covalent"]


def floors(tier):
    return {M_TAB: 309, M_EQ: 60 if tier == "quick" else 800, M_SITU: 100}


def gen_cases(tier, seed):
    ss = np.random.SeedSequence([seed, 19])
    q = tier == "quick"
    cases = [{"kind": "table", "seed": int(ss.spawn(1)[0].generate_state(1)[0])}]
    for child in ss.spawn(100 if q else 1500):
        cases.append({"kind": "equiv", "seed": int(child.generate_state(1)[0])})
    return cases


def expected_radii(preset, numbers):
    from ase.data import covalent_radii
    from ase.data.vdw_alvarez import vdw_radii
    numbers = np.asarray(numbers)
    c = np.asarray(covalent_radii)[numbers]
    if preset == "covalent":
        return c
    v = np.asarray(vdw_radii)[numbers]
    if preset == "vdw":
        return v
    return np.where(np.isnan(v), c, v)


def check_get_radii(rec, name, radii_arg, numbers, result, context):
    rec.call(name)
    if isinstance(radii_arg, str):
        if radii_arg not in PRESETS or numbers is None:
            rec.ood(name); return
        numbers = np.asarray(numbers)
        if numbers.size and (numbers.min() < 1 or numbers.max() > 103):
            rec.ood(name); return
        exp = expected_radii(radii_arg, numbers)
        res = np.asarray(result, float)
        rec.judged(name)
        if res.shape != exp.shape or not np.array_equal(res, exp, equal_nan=True):
            bad = [int(z) for z, a, b in zip(numbers.ravel(), res.ravel(), exp.ravel())
                   if not (a == b or (np.isnan(a) and np.isnan(b)))] if res.shape == exp.shape else []
            zs = sorted(set(bad))
            kind = "fallback-not-taken" if radii_arg == "vdw_covalent" and any(z in UNDEF for z in zs) else "wrong-value"
            rec.violation(name, "C19|get_radii|%s|%s" % (radii_arg, kind),
                          "get_radii(%r) deviates from the documented table for Z in %s" % (radii_arg, zs[:12]),
                          {"preset": radii_arg, "Z": zs[:20], "got": [repr(float(x)) for x in res.ravel()[:20]],
                           "expected": [repr(float(x)) for x in exp.ravel()[:20]], "context": context})
        elif radii_arg in ("covalent", "vdw_covalent") and (not np.all(np.isfinite(res)) or np.any(res <= 0)):
            rec.violation(name, "C19|get_radii|%s|not-finite-positive" % radii_arg, "non-finite or non-positive radius", {"context": context})
    else:
        rec.judged(name)
        if result is not radii_arg and not np.array_equal(np.asarray(result), np.asarray(radii_arg), equal_nan=True):
            rec.violation(name, "C19|get_radii|custom-changed", "a custom radii array was not returned unchanged", {"context": context})


_state = {}


def worker_init(lane):
    import matid.geometry
    import matid.geometry.geometry as gg
    _state["context"] = "direct"

    def post(rec, snap, result, exc, radii, atomic_numbers=None):
        if exc is not None:
            rec.call(M_SITU)
            rec.violation(M_SITU, "C19|get_radii|exception|%s" % type(exc).__name__, "get_radii raised %r" % (exc,), {})
            return
        check_get_radii(rec, M_TAB if _state["context"] == "table" else M_SITU, radii, atomic_numbers, result, _state["context"])

    core.bind([matid.geometry, gg], "get_radii", core.observe(post))


def run_table(case, rec):
    import matid.geometry
    _state["context"] = "table"
    rng = np.random.default_rng(case["seed"])
    keys = set()
    n_exec = 0
    for preset in PRESETS:
        for z in range(1, 104):
            matid.geometry.get_radii(preset, np.array([z]))
            n_exec += 1
            keys.add("table|%s|%d" % (preset, z))
        matid.geometry.get_radii(preset, np.arange(1, 104))
        for _ in range(20):
            matid.geometry.get_radii(preset, rng.integers(1, 104, size=int(rng.integers(1, 40))))
            n_exec += 1
    for _ in range(30):
        arr = rng.uniform(0.2, 3.0, size=int(rng.integers(1, 30)))
        matid.geometry.get_radii(arr, rng.integers(1, 104, size=len(arr)))
        matid.geometry.get_radii(arr)
        n_exec += 2
    return n_exec, keys, {"kind": "table"}, {"kind": "table", "entries": 309}


def clusters_signature(clusters):
    return sorted((tuple(sorted(int(i) for i in c.indices)), tuple(sorted(int(s) for s in c.species))) for c in clusters)


def run_equiv(case, rec):
    import matid
    import matid.geometry
    _state["context"] = "equivalence"
    rng = np.random.default_rng(case["seed"])
    fam = ["crystal", "defective", "slab", "molecules", "gas", "crystallite", "two_crystals"][int(rng.integers(7))]
    atoms, meta = structures.random_structure(rng, max_atoms=60, family=fam, allow_degenerate=False)
    preset = PRESETS[int(rng.integers(3))]
    z = atoms.get_atomic_numbers()
    has_undef = False
    light = rng.random() < 0.25
    if light and len(z):
        # light elements only: more atoms than the largest atomic number
        z = rng.choice([1, 6, 7, 8], size=len(z))
        atoms.set_atomic_numbers(z)
    if preset != "vdw" and not light and rng.random() < 0.6 and len(z):
        k = max(1, int(len(z) * rng.uniform(0.05, 0.5)))
        idx = rng.choice(len(z), size=min(k, len(z)), replace=False)
        z[idx] = rng.choice(UNDEF, size=len(idx))
        atoms.set_atomic_numbers(z)
        has_undef = True
    if preset == "vdw":
        # keep only elements with a tabulated vdW radius
        if np.isnan(expected_radii("vdw", z)).any():
            z[np.isnan(expected_radii("vdw", z))] = 6
            atoms.set_atomic_numbers(z)
    explicit = expected_radii(preset, atoms.get_atomic_numbers()).copy()
    explicit_snapshot = explicit.copy()
    readonly = bool(rng.random() < 0.5)
    if readonly:
        explicit.setflags(write=False)      # "used unchanged": a caller may hand over a read-only array
    thr = float(rng.uniform(0.3, 1.2))
    wit = dict(structures.describe(atoms), preset=preset, threshold=thr, family=fam)
    rec.call(M_EQ)
    ok = True
    # --- dimensionality
    try:
        a = matid.geometry.get_dimensionality(atoms, thr, radii=preset, return_clusters=True)
        b = matid.geometry.get_dimensionality(atoms, thr, radii=explicit, return_clusters=True)
        sa = (a[0], sorted(sorted(int(x) for x in c) for c in a[1]))
        sb = (b[0], sorted(sorted(int(x) for x in c) for c in b[1]))
        if sa != sb:
            ok = False
            rec.violation(M_EQ, "C19|equivalence|get_dimensionality|%s|%s" % (preset, "undef-vdw" if has_undef else "all-defined"),
                          "get_dimensionality(radii=%r) = %r but with the same numbers as an array = %r" % (preset, sa[0], sb[0]), wit)
    except Exception as e:
        ok = False
        rec.violation(M_EQ, "C19|equivalence|get_dimensionality|exception|%s|%s" % (type(e).__name__, preset),
                      "get_dimensionality raised %r" % (e,), wit)
    # --- SBC
    if len(atoms) >= 2 and meta["cell_mode"] != "zero_vector_periodic":
        try:
            seed = int(rng.integers(100))
            sbc = matid.SBC()
            if rng.random() < 0.4:
                # history: the same SBC object clustered this structure before with OTHER radii (scaled array or
                # another preset); the preset run below must not inherit anything from it
                other = explicit * float(rng.uniform(0.4, 1.8)) if rng.random() < 0.7 else "covalent" if preset != "covalent" else explicit * 1.5
                with core.suspend():
                    try:
                        sbc.get_clusters(atoms, radii=other, seed=seed, bond_threshold=thr if thr < 1 else 0.65)
                    except Exception:
                        pass
                rec.note("sbc_instance_reused_with_other_radii")
            c1 = sbc.get_clusters(atoms, radii=preset, seed=seed, bond_threshold=thr if thr < 1 else 0.65)
            c2 = matid.SBC().get_clusters(atoms, radii=explicit, seed=seed, bond_threshold=thr if thr < 1 else 0.65)
            if clusters_signature(c1) != clusters_signature(c2):
                ok = False
                rec.violation(M_EQ, "C19|equivalence|SBC|%s|%s" % (preset, "undef-vdw" if has_undef else "all-defined"),
                              "SBC.get_clusters(radii=%r) differs from the run with the same numbers as an array" % preset, wit)
        except Exception as e:
            ok = False
            rec.violation(M_EQ, "C19|equivalence|SBC|exception|%s|%s" % (type(e).__name__, preset), "SBC raised %r" % (e,), wit)
    # the caller's custom array must come back bit-identical
    if not np.array_equal(explicit, explicit_snapshot, equal_nan=True):
        ok = False
        rec.violation(M_EQ, "C19|custom-array-modified|%s" % preset, "the caller's custom radii array was modified by the analysis", wit)
    # the vdW numbers of a structure with undefined entries (NaN) as a custom array: SBC must leave the array alone
    if has_undef and len(atoms) >= 2 and meta["cell_mode"] != "zero_vector_periodic" and rng.random() < 0.5:
        from ase.data.vdw_alvarez import vdw_radii
        nan_arr = np.asarray(vdw_radii)[atoms.get_atomic_numbers()].copy()
        snap = nan_arr.copy()
        try:
            matid.SBC().get_clusters(atoms, radii=nan_arr, seed=0)
        except Exception as e:
            rec.note("sbc_with_nan_radii_raised:%s" % type(e).__name__)
        rec.note("sbc_runs_with_nan_custom_array")
        if not np.array_equal(nan_arr, snap, equal_nan=True):
            ok = False
            rec.violation(M_EQ, "C19|custom-array-modified|nan-entries", "a custom radii array with NaN entries was rewritten by SBC.get_clusters", wit)
    rec.judged(M_EQ)
    keys = set()
    if len(atoms) > 1:
        keys.add("equiv|%s|%s|%s|%s" % (fam, preset, has_undef, meta["pbc"]))
    return 1, keys, {"family": fam, "preset": preset, "undefined_vdw_present": has_undef, "pbc": meta["pbc"]}, \
        {"family": fam, "preset": preset, "natoms": len(atoms), "undefined_vdw_present": has_undef, "equal": ok}


def run_case(case):
    rec = core.Recorder()
    core.set_recorder(rec)
    try:
        if case["kind"] == "table":
            n_exec, keys, classes, sample = run_table(case, rec)
        else:
            n_exec, keys, classes, sample = run_equiv(case, rec)
    finally:
        core.set_recorder(None)
    out = rec.export()
    out["info"] = {"keys": sorted(keys), "nontrivial": bool(keys), "classes": classes, "n_exec": n_exec}
    out["sample"] = sample
    return out


def crash_key(case, rep):
    # a dying worker during an equivalence run: NaN radii reaching the native cutoff is the known mechanism
    return "C19|crash|%s|%s" % (case.get("kind"), rep.get("signal") or rep.get("returncode"))
