"""C17 - Classifier output is consistent with dimensionality and with its own region.

Deciding monitor: postcondition on Classifier.classify (monitors/pipeline.check_classification): normal return on
full-rank / non-periodic cells, bit-exact input snapshot, class vs get_dimensionality of the wrapped structure,
region partition / coverage / prototype cell for Surface and Material2D, repeatability."""
import numpy as np

from gen import structures
from monitors import core, pipeline

ID = "C17"
LEVEL = "exploration"
RULE = ("the C01 structure family (random, defective, stacked, molecular, slabs, crystallites; all pbc masks; <= 150 atoms; "
        "wrapped / lattice-shifted / outside positions; full-rank cells or no cell at all; singular cells are fed and "
        "counted out-of-domain) with default and varied cluster_threshold / min_coverage / max_cell_size / pos_tol. "
        "Non-trivial = in-domain structure with >= 2 atoms; distinct = (family, pbc, cell mode, size bucket, class)")
ASSUMPTIONS = ["matid.geometry.get_dimensionality on the wrapped copy is the reference (subject of C09)"]
CASE_TIMEOUT = 600
BUDGET_S = {"quick": 800, "thorough": 3300}
NAME = "classify_post"
_state = {}


def floors(tier):
    return {NAME: 120 if tier == "quick" else 2200}


def gen_cases(tier, seed):
    ss = np.random.SeedSequence([seed, 17])
    q = tier == "quick"
    cases = [{"seed": int(ch.generate_state(1)[0]), "max_atoms": 90 if q else 150} for ch in ss.spawn(170 if q else 3000)]
    # the one-atom members of the family on every run (Atom vs Class0D / Class1D-3D when bonded to its own images)
    cases += [{"seed": int(ch.generate_state(1)[0]), "max_atoms": 1, "single_atom": True} for ch in ss.spawn(8 if q else 80)]
    return cases


def worker_init(lane):
    from matid.classification.classifier import Classifier
    if getattr(Classifier, "_verif_bound", False):
        return
    Classifier._verif_bound = True

    def pre(self, input_system):
        return pipeline.fingerprint(input_system)

    def post(rec, snap, result, exc, self, input_system):
        _state["last"] = (snap, pipeline.fingerprint(input_system), result, exc)

    Classifier.classify = core.observe(post, pre)(Classifier.classify)


def priming_structures(rng):
    """1-2 imperfect surfaces / 2D materials (adsorbate, vacancy, substitution) of 28-70 atoms."""
    from ase.build import bcc100, fcc100, fcc111, mx2, add_adsorbate
    out = []
    for _ in range(int(rng.integers(1, 3))):
        k = int(rng.integers(4))
        if k == 0:
            a = bcc100("Fe", (3, 3, 3), vacuum=8.0)
            add_adsorbate(a, "O", 1.6, "ontop")
        elif k == 1:
            a = fcc100("Al", (4, 4, 4), vacuum=8.0)
            a[int(rng.integers(len(a)))].symbol = "Mg"
        elif k == 2:
            a = fcc111("Cu", (4, 4, 3), vacuum=8.0, orthogonal=False)
            del a[int(rng.integers(len(a)))]
        else:
            a = mx2("MoS2", size=(4, 4, 1), vacuum=8.0)
            idx = [i for i, z in enumerate(a.get_atomic_numbers()) if z == 16]
            a[idx[int(rng.integers(len(idx)))]].symbol = "Se"
        a.set_pbc([True, True, bool(rng.random() < 0.5)])
        out.append(a)
    return out


def run_case(case):
    import matid
    rng = np.random.default_rng(case["seed"])
    rec = core.Recorder()
    atoms, meta = structures.random_structure(rng, max_atoms=case["max_atoms"], allow_invalid=True)
    if case.get("single_atom"):
        from ase import Atoms
        from gen import cells as _cells
        L = rng.uniform(2.0, 15.0, size=3)
        pbc = _cells.PBCS[int(rng.integers(8))]
        atoms = Atoms(numbers=[int(rng.choice([1, 6, 13, 26, 29, 55, 79]))], positions=[rng.uniform(-3, 18, size=3)], cell=np.diag(L), pbc=pbc)
        meta = {"family": "single_atom", "cell_mode": "as_built", "positions_mode": "anywhere", "expect_value_error": False,
                "pbc": "".join("TF"[not b] for b in pbc), "natoms": 1, "order": "as_built"}
    if rng.random() < 0.08:
        from ase import Atoms
        atoms = Atoms(numbers=atoms.get_atomic_numbers(), positions=atoms.get_positions())     # no cell at all
        meta["cell_mode"] = "no_cell"; meta["pbc"] = "FFF"
    kw = {}
    if rng.random() < 0.5:
        # below, around and above the default of 3.5 (distance minus radii)
        kw["cluster_threshold"] = float([rng.uniform(0.2, 1.2), rng.uniform(1.2, 3.5), rng.uniform(3.5, 7.0)][int(rng.integers(3))])
    if rng.random() < 0.3:
        kw["min_coverage"] = float(rng.uniform(0.3, 1.0))
    if rng.random() < 0.3:
        kw["max_cell_size"] = float(rng.uniform(4, 9))
    if rng.random() < 0.2:
        kw["pos_tol"] = float(rng.uniform(0.2, 0.9))
    core.set_recorder(rec)
    cname = None
    try:
        clf = matid.Classifier(**kw)
        if rng.random() < 0.4:
            # history: the same Classifier object classified other (imperfect two-dimensional) structures before;
            # the answer for the target must be that of a fresh object (judged by the postcondition below, whose
            # `repeat` reference always comes from a fresh Classifier)
            with core.suspend():
                for prim in priming_structures(rng):
                    try:
                        clf.classify(prim)
                    except Exception:
                        pass
            rec.note("classifier_reused_after_other_structures")
        _state["last"] = None
        try:
            res = clf.classify(atoms)
        except Exception:
            res = None
        snap, after, result, exc = _state["last"]
        rep = None
        if exc is None:
            with core.suspend():
                try:
                    rep = matid.Classifier(**kw).classify(atoms.copy())
                except Exception as e:
                    rep = e
        pipeline.check_classification(rec, NAME, atoms, snap, after, clf, result, exc, repeat=rep)
        cname = type(result).__name__ if exc is None else "exception:%s" % type(exc).__name__
        # adaptive boundary probe of the coverage clause: ask again with min_coverage just above / exactly at the
        # coverage of the region that was found - a Surface / Material2D answer must still cover >= min_coverage
        if exc is None and cname in ("Surface", "Material2D"):
            nb, n = len(set(result.basis_indices)), len(atoms)
            for mc in ((nb + 0.5) / n, nb / n):
                if not (0 < mc <= 1):
                    continue
                kw2 = dict(kw, min_coverage=float(mc))
                clf2 = matid.Classifier(**kw2)
                _state["last"] = None
                try:
                    clf2.classify(atoms)
                except Exception:
                    pass
                if _state["last"]:
                    s2, a2, r2, e2 = _state["last"]
                    pipeline.check_classification(rec, NAME, atoms, s2, a2, clf2, r2, e2)
                    rec.note("coverage_boundary_probes")
    finally:
        core.set_recorder(None)
    out = rec.export()
    ind = rec.counter(NAME)["judged"] > 0
    out["info"] = {"key": "%s|%s|%s|%d|%s" % (meta["family"], meta["pbc"], meta["cell_mode"], len(atoms) // 25, cname),
                   "nontrivial": bool(ind and len(atoms) >= 2),
                   "classes": {"family": meta["family"], "pbc": meta["pbc"], "cell_mode": meta["cell_mode"], "class": cname,
                               "positions_mode": meta["positions_mode"], "order": meta.get("order", "as_built")}}
    out["sample"] = {"family": meta["family"], "pbc": meta["pbc"], "cell_mode": meta["cell_mode"], "natoms": len(atoms), "kwargs": kw, "class": cname}
    return out
