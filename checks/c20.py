"""C20 - cell and frame helpers preserve the physical structure.

icontract postconditions (snapshot + ensure, named condition functions that record and return True) attached to
the real helpers on package and module, exercised by a synthetic driver and in situ (SBC, 2D conventional cell);
relational checks (round trips, translation equivariance, lattice-shift invariance) by the driver."""
import numpy as np

from monitors import core
from gen import cells

ID = "C20"
LEVEL = "exploration"
RULE = ("cases = batches of random helper calls: 1-10 atoms inside or outside non-singular orthogonal/triclinic/sheared/"
        "rotated cells, all pbc masks, all three axes, min_size 0.1-3 A; each call judged by icontract postconditions "
        "(to_scaled, to_cartesian, get_minimized_cell, swap_basis, complete_cell) and by driver relations (round trips, "
        "centre-of-mass equivariance/invariance, inertia eigen-decomposition); plus pipeline runs (SBC, 2D "
        "SymmetryAnalyzer) where the same contracts fire in situ. distinct = (helper, cell kind, pbc, axis/wrap flag)")
ASSUMPTIONS = ["numpy linear algebra", "icontract 2.7.3 evaluates the postconditions on every call of the decorated function",
               "centre-of-mass cases whose circular resultant is < 1e-6 are ill-conditioned (counted, skipped)"]
CASE_TIMEOUT = 240
BUDGET_S = {"quick": 600, "thorough": 2400}
TOL = 1e-8

M = {k: k for k in ("to_scaled_post", "to_cartesian_post", "minimized_cell_post", "swap_basis_post", "complete_cell_post",
                    "roundtrip", "center_of_mass_relations", "moments_of_inertia_post")}


def floors(tier):
    q = tier == "quick"
    f = {k: (300 if q else 5000) for k in M}
    return f


def gen_cases(tier, seed):
    ss = np.random.SeedSequence([seed, 20])
    q = tier == "quick"
    cases = []
    for child in ss.spawn(32 if q else 600):
        cases.append({"kind": "direct", "seed": int(child.generate_state(1)[0]), "n": 40})
    for child in ss.spawn(12 if q else 160):
        cases.append({"kind": "pipeline", "seed": int(child.generate_state(1)[0])})
    return cases


_state = {"context": "direct"}


def _rec():
    return core.rec()


def _pbc3(pbc):
    if pbc is True:
        return np.array([True] * 3)
    if pbc is False:
        return np.array([False] * 3)
    return np.array(pbc, bool)


def _wit(**kw):
    out = {"context": _state["context"]}
    for k, v in kw.items():
        if isinstance(v, np.ndarray):
            out[k] = v.tolist()
            out[k + "_hex"] = [float(x).hex() for x in v.ravel()] if v.dtype.kind == "f" else None
        else:
            out[k] = v
    return out


# ------------------------------------------------------------------ icontract conditions (record, return True)
def snap_array2(positions):
    return np.array(positions, float, copy=True)


def snap_scaled(scaled_positions):
    return np.array(scaled_positions, float, copy=True)


def to_scaled_ok(cell, positions, wrap, pbc, result, OLD):
    r = _rec()
    if r is None or core.suspended():
        return True
    name = M["to_scaled_post"]
    r.call(name)
    cellv = np.array(cell, float)
    p = np.atleast_2d(OLD.pos)
    if abs(np.linalg.det(cellv)) < 1e-10 or p.ndim != 2 or p.shape[1] != 3 or not np.all(np.isfinite(p)):
        r.ood(name); return True
    res = np.asarray(result, float)
    scale = max(1.0, np.abs(p).max(), np.abs(cellv).max())
    pb = _pbc3(pbc)
    back = res @ cellv
    r.judged(name)
    if not wrap:
        if res.shape != p.shape or np.abs(back - p).max() > TOL * scale * max(1.0, np.abs(res).max()):
            r.violation(name, "C20|to_scaled|not-inverse", "to_scaled(p) @ cell != p", _wit(cell=cellv, positions=p, pbc=pb.tolist(), wrap=bool(wrap)))
    else:
        raw = np.linalg.solve(cellv.T, p.T).T
        diff = res - raw
        bad_int = np.abs(diff - np.round(diff)).max() > 1e-7 * max(1.0, np.abs(raw).max())
        bad_np = np.abs(diff[:, ~pb]).max() > 1e-9 * max(1.0, np.abs(raw).max()) if (~pb).any() and len(diff) else False
        bad_rng = ((res[:, pb] < 0) | (res[:, pb] > 1)).any() if pb.any() else False   # x % 1.0 may round to exactly 1.0
        if bad_int or bad_np or bad_rng:
            r.violation(name, "C20|to_scaled|wrap", "wrapping changed something other than periodic components by integers (int=%s nonperiodic=%s range=%s)" % (bad_int, bad_np, bad_rng),
                        _wit(cell=cellv, positions=p, pbc=pb.tolist(), wrap=True))
    return True


def to_cartesian_ok(cell, scaled_positions, wrap, pbc, result, OLD):
    r = _rec()
    if r is None or core.suspended():
        return True
    name = M["to_cartesian_post"]
    r.call(name)
    cellv = np.array(cell, float)
    s = np.atleast_2d(OLD.spos)
    if s.ndim != 2 or s.shape[1] != 3 or not np.all(np.isfinite(s)) or not np.all(np.isfinite(cellv)):
        r.ood(name); return True
    res = np.asarray(result, float)
    pb = _pbc3(pbc)
    scale = max(1.0, np.abs(cellv).max()) * max(1.0, np.abs(s).max())
    r.judged(name)
    if not wrap:
        if res.shape != s.shape or np.abs(res - s @ cellv).max() > TOL * scale:
            r.violation(name, "C20|to_cartesian|not-linear", "to_cartesian(s) != s @ cell", _wit(cell=cellv, scaled=s, pbc=pb.tolist()))
    else:
        if abs(np.linalg.det(cellv)) < 1e-10:
            return True
        back = np.linalg.solve(cellv.T, res.T).T
        diff = back - s
        bad_int = np.abs(diff - np.round(diff)).max() > 1e-7 * max(1.0, np.abs(s).max())
        bad_np = np.abs(diff[:, ~pb]).max() > 1e-7 * max(1.0, np.abs(s).max()) if (~pb).any() and len(diff) else False
        bad_rng = ((back[:, pb] < -1e-9) | (back[:, pb] >= 1 + 1e-9)).any() if pb.any() else False
        if bad_int or bad_np or bad_rng:
            r.violation(name, "C20|to_cartesian|wrap", "wrapping changed something other than periodic components by integers",
                        _wit(cell=cellv, scaled=s, pbc=pb.tolist(), wrap=True))
    return True


def snap_system(system):
    return {"pos": system.get_positions().copy(), "cell": system.get_cell().array.copy(), "pbc": system.get_pbc().copy(),
            "num": system.get_atomic_numbers().copy()}


def minimized_ok(system, axis, min_size, result, OLD):
    r = _rec()
    if r is None or core.suspended():
        return True
    name = M["minimized_cell_post"]
    r.call(name)
    o = OLD.sysm
    cell, pos = o["cell"], o["pos"]
    n = len(pos)
    if n == 0 or abs(np.linalg.det(cell)) < 1e-9 or not np.isfinite(min_size) or min_size <= 0:
        r.ood(name); return True
    axis = int(axis)
    srel = np.linalg.solve(cell.T, pos.T).T[:, axis]
    clen = np.linalg.norm(cell[axis])
    extent = (srel.max() - srel.min()) * clen
    want = max(extent, float(min_size))
    ncell = result.get_cell().array
    npos = result.get_positions()
    scale = max(1.0, np.abs(pos).max(), np.abs(cell).max())
    problems = []
    if not np.array_equal(result.get_atomic_numbers(), o["num"]):
        problems.append("species")
    if len(npos) != n:
        problems.append("atom-count")
    else:
        d_old = pos - pos[0]
        d_new = npos - npos[0]
        if np.abs(d_old - d_new).max() > 1e-7 * scale:
            problems.append("mutual-displacements")
    others = [i for i in range(3) if i != axis]
    if np.abs(ncell[others] - cell[others]).max() > 1e-9 * scale:
        problems.append("other-cell-vectors")
    nl = np.linalg.norm(ncell[axis])
    if abs(nl - want) > 1e-7 * scale:
        problems.append("length")
    if nl > 0 and np.linalg.norm(np.cross(ncell[axis] / nl, cell[axis] / clen)) > 1e-7:
        problems.append("direction")
    elif nl > 0 and np.dot(ncell[axis], cell[axis]) < 0 and extent >= min_size:
        problems.append("direction")
    if not np.array_equal(result.get_pbc(), o["pbc"]):
        problems.append("pbc")
    if not problems and abs(np.linalg.det(ncell)) > 1e-12:
        ns = np.linalg.solve(ncell.T, npos.T).T[:, axis]
        if ns.min() < -1e-7 or ns.max() > 1 + 1e-7:
            problems.append("atoms-outside")
        elif extent < min_size and abs(ns.min() + ns.max() - 1.0) > 1e-6:
            problems.append("not-centred")
    r.judged(name)
    for pr in problems:
        r.violation(name, "C20|get_minimized_cell|%s" % pr, "get_minimized_cell violates: %s (extent %.6g, min_size %.6g, new length %.6g)" % (pr, extent, min_size, nl),
                    _wit(cell=cell, positions=pos, pbc=o["pbc"].tolist(), axis=axis, min_size=float(min_size), new_cell=ncell))
    return True


def snap_atoms(atoms):
    return snap_system(atoms)


def swap_ok(atoms, a, b, OLD):
    r = _rec()
    if r is None or core.suspended():
        return True
    name = M["swap_basis_post"]
    r.call(name)
    o = OLD.sysm
    cell = atoms.get_cell().array
    pbc = atoms.get_pbc()
    exp_cell = o["cell"].copy(); exp_cell[[a, b]] = exp_cell[[b, a]]
    exp_pbc = o["pbc"].copy(); exp_pbc[[a, b]] = exp_pbc[[b, a]]
    r.judged(name)
    if not np.array_equal(cell, exp_cell):
        r.violation(name, "C20|swap_basis|cell", "cell vectors not exchanged", _wit(cell=o["cell"], a=int(a), b=int(b), new_cell=cell))
    if not np.array_equal(pbc, exp_pbc):
        r.violation(name, "C20|swap_basis|pbc", "pbc flags not exchanged", _wit(pbc=o["pbc"].tolist(), a=int(a), b=int(b), new_pbc=pbc.tolist()))
    if not np.array_equal(atoms.get_positions(), o["pos"]) or not np.array_equal(atoms.get_atomic_numbers(), o["num"]):
        r.violation(name, "C20|swap_basis|atoms-moved", "atoms moved or changed", _wit(cell=o["cell"], a=int(a), b=int(b)))
    return True


def complete_ok(a, b, length, result):
    r = _rec()
    if r is None or core.suspended():
        return True
    name = M["complete_cell_post"]
    r.call(name)
    a = np.asarray(a, float); b = np.asarray(b, float)
    cr = np.cross(a, b)
    if np.linalg.norm(cr) < 1e-9 * max(1e-12, np.linalg.norm(a) * np.linalg.norm(b)) or not np.isfinite(length):
        r.ood(name); return True
    c = np.asarray(result, float).reshape(-1)
    r.judged(name)
    sc = max(1.0, abs(length))
    if c.shape != (3,) or abs(np.linalg.norm(c) - abs(length)) > 1e-9 * sc \
            or abs(np.dot(c, a)) > 1e-9 * sc * np.linalg.norm(a) or abs(np.dot(c, b)) > 1e-9 * sc * np.linalg.norm(b):
        r.violation(name, "C20|complete_cell", "result is not orthogonal to both inputs with the requested length",
                    _wit(a=a, b=b, length=float(length), result=c))
    return True


class Recorded(Exception):
    pass


def worker_init(lane):
    import icontract
    import matid.geometry
    import matid.geometry.geometry as gg

    def deco_to_scaled(fn):
        return icontract.snapshot(snap_array2, name="pos")(icontract.ensure(to_scaled_ok, error=Recorded)(fn))

    def deco_to_cartesian(fn):
        return icontract.snapshot(snap_scaled, name="spos")(icontract.ensure(to_cartesian_ok, error=Recorded)(fn))

    def deco_min(fn):
        return icontract.snapshot(snap_system, name="sysm")(icontract.ensure(minimized_ok, error=Recorded)(fn))

    def deco_swap(fn):
        return icontract.snapshot(snap_atoms, name="sysm")(icontract.ensure(swap_ok, error=Recorded)(fn))

    def deco_complete(fn):
        return icontract.ensure(complete_ok, error=Recorded)(fn)

    for name, deco in (("to_scaled", deco_to_scaled), ("to_cartesian", deco_to_cartesian), ("get_minimized_cell", deco_min),
                       ("swap_basis", deco_swap), ("complete_cell", deco_complete)):
        def factory(fn, deco=deco):
            w = deco(fn)
            w.__wrapped_by_verif__ = True
            return w
        core.bind([matid.geometry, gg], name, factory)


def _system(rng, inside=None):
    from ase import Atoms
    cell, kind = cells.random_cell(rng, lo=2.0, hi=12.0)
    pbc = np.array(cells.PBCS[int(rng.integers(8))])
    n = int(rng.integers(1, 11))
    inside = rng.random() < 0.5 if inside is None else inside
    s = rng.random((n, 3)) if inside else rng.uniform(-3, 4, (n, 3))
    z = rng.choice([1, 6, 8, 14, 26, 29, 47, 79, 82], size=n)
    return Atoms(numbers=z, positions=s @ cell, cell=cell, pbc=pbc), kind, inside


def inertia_reference(atoms, centre, weight):
    pos = atoms.get_positions() - centre
    w = atoms.get_masses() if weight else np.ones(len(atoms))
    T = np.zeros((3, 3))
    for p, m in zip(pos, w):
        T += m * (np.dot(p, p) * np.eye(3) - np.outer(p, p))
    return T


def run_direct(case, rec):
    import matid.geometry as g
    rng = np.random.default_rng(case["seed"])
    _state["context"] = "direct"
    keys, n_exec, sample = set(), 0, None
    classes = {"helper": [], "cell_kind": [], "pbc": []}
    for it in range(case["n"]):
        atoms, kind, inside = _system(rng)
        cell = atoms.get_cell().array
        pbc = atoms.get_pbc()
        pos = atoms.get_positions()
        pk = "".join("TF"[not b] for b in pbc)
        scale = max(1.0, np.abs(pos).max(), np.abs(cell).max())
        # ---- to_scaled / to_cartesian + round trips
        wrap = bool(rng.random() < 0.4)
        pbc_arg, pform = cells.pbc_form(rng, pbc)          # any accepted form of the same flags
        classes.setdefault("pbc_form", []).append(pform)
        sc = g.to_scaled(cell, pos.copy(), wrap=wrap, pbc=pbc_arg)
        ca = g.to_cartesian(cell, sc.copy(), wrap=False, pbc=pbc_arg)
        rec.call(M["roundtrip"]); rec.judged(M["roundtrip"])
        if not wrap and np.abs(ca - pos).max() > 1e-7 * scale:
            rec.violation(M["roundtrip"], "C20|roundtrip|cartesian", "to_cartesian(to_scaled(p)) != p", _wit(cell=cell, positions=pos))
        s0 = rng.uniform(-2, 3, (len(atoms), 3))
        ca2 = g.to_cartesian(cell, s0.copy(), wrap=bool(rng.random() < 0.3), pbc=cells.pbc_form(rng, pbc)[0])
        sc2 = g.to_scaled(cell, g.to_cartesian(cell, s0.copy()))
        rec.call(M["roundtrip"]); rec.judged(M["roundtrip"])
        if np.abs(sc2 - s0).max() > 1e-7 * max(1.0, np.abs(s0).max()) * np.linalg.cond(cell):
            rec.violation(M["roundtrip"], "C20|roundtrip|scaled", "to_scaled(to_cartesian(s)) != s", _wit(cell=cell, scaled=s0))
        # 1-D input form
        g.to_scaled(cell, pos[0].copy(), wrap=wrap, pbc=pbc_arg)
        g.to_cartesian(cell, s0[0].copy())
        # ---- get_minimized_cell
        axis = int(rng.integers(3))
        ms = float(rng.uniform(0.1, 3.0))
        try:
            g.get_minimized_cell(atoms.copy(), axis, ms)
        except Exception as e:
            rec.violation(M["minimized_cell_post"], "C20|get_minimized_cell|exception|%s" % type(e).__name__, "raised %r" % (e,),
                          _wit(cell=cell, positions=pos, axis=axis, min_size=ms))
        # ---- swap_basis
        a, b = (int(x) for x in rng.choice(3, 2, replace=False))
        g.swap_basis(atoms.copy(), a, b)
        # ---- complete_cell
        g.complete_cell(cell[a], cell[b], float(rng.uniform(0.5, 12)))
        # ---- centre of mass relations
        name = M["center_of_mass_relations"]
        rec.call(name)
        sfrac = atoms.get_scaled_positions(wrap=False)
        m = atoms.get_masses()
        resultant = [abs(np.sum(m * np.exp(2j * np.pi * sfrac[:, i]))) / m.sum() for i in range(3) if pbc[i]]
        if resultant and min(resultant) < 1e-6:
            rec.ood(name); rec.note("com_ill_conditioned")
        else:
            com = g.get_center_of_mass(atoms)
            t = rng.uniform(-7, 7, 3)
            moved = atoms.copy(); moved.translate(t)
            com_t = g.get_center_of_mass(moved)
            d = np.linalg.solve(cell.T, com_t - com - t)
            dd = d.copy()
            dd[pbc] -= np.round(dd[pbc])
            tolc = 1e-6 * max(1.0, 1.0 / min(resultant)) if resultant else 1e-8
            rec.judged(name)
            if np.abs(dd).max() > tolc:
                rec.violation(name, "C20|center_of_mass|translation", "centre of mass does not move with a rigid translation (mod lattice)",
                              _wit(cell=cell, positions=pos, pbc=pbc.tolist(), numbers=atoms.get_atomic_numbers().tolist(), translation=t))
            sh = rng.integers(-3, 4, size=(len(atoms), 3)) * pbc[None, :]
            shifted = atoms.copy(); shifted.set_positions(pos + sh @ cell)
            com_s = g.get_center_of_mass(shifted)
            d2 = np.linalg.solve(cell.T, com_s - com)
            d2[pbc] -= np.round(d2[pbc])
            if np.abs(d2).max() > tolc:
                rec.violation(name, "C20|center_of_mass|lattice-shift", "centre of mass changed under lattice-vector shifts of single atoms",
                              _wit(cell=cell, positions=pos, pbc=pbc.tolist(), numbers=atoms.get_atomic_numbers().tolist(), shifts=sh))
            R = cells.random_rotation(rng)
            rot = atoms.copy(); rot.set_cell(cell @ R.T); rot.set_positions(pos @ R.T)
            com_r = g.get_center_of_mass(rot)
            d3 = np.linalg.solve((cell @ R.T).T, com_r - com @ R.T)
            d3[pbc] -= np.round(d3[pbc])
            if np.abs(d3).max() > tolc:
                rec.violation(name, "C20|center_of_mass|rotation", "centre of mass does not rotate with the structure",
                              _wit(cell=cell, positions=pos, pbc=pbc.tolist(), numbers=atoms.get_atomic_numbers().tolist()))
            # ---- moments of inertia
            name2 = M["moments_of_inertia_post"]
            weight = bool(rng.random() < 0.5)
            rec.call(name2)
            try:
                evals, evecs = g.get_moments_of_inertia(atoms, weight=weight)
            except Exception as e:
                rec.judged(name2)
                rec.violation(name2, "C20|moments_of_inertia|exception|%s" % type(e).__name__, "get_moments_of_inertia raised %r" % (e,),
                              _wit(cell=cell, positions=pos, pbc=pbc.tolist(), weight=weight))
            else:
                T = inertia_reference(atoms, com, weight)
                ref = np.linalg.eigvalsh(T)
                sT = max(1.0, np.abs(T).max())
                rec.judged(name2)
                evals = np.asarray(evals, float); evecs = np.asarray(evecs, float)
                if evals.shape != (3,) or evecs.shape != (3, 3) or np.abs(np.sort(evals) - ref).max() > 1e-7 * sT \
                        or np.abs(T @ evecs - evecs * evals[None, :]).max() > 1e-6 * sT \
                        or np.abs(evecs.T @ evecs - np.eye(3)).max() > 1e-8:
                    rec.violation(name2, "C20|moments_of_inertia|wrong", "not the eigen-decomposition of the inertia tensor about the periodic centre of mass",
                                  _wit(cell=cell, positions=pos, pbc=pbc.tolist(), numbers=atoms.get_atomic_numbers().tolist(), weight=weight,
                                       got=evals, expected=ref))
        n_exec += 1
        for hname, extra in (("to_scaled", wrap), ("get_minimized_cell", axis), ("swap_basis", (a, b)), ("center_of_mass", "")):
            keys.add("%s|%s|%s|%s" % (hname, kind, pk, extra))
        classes["cell_kind"].append(kind); classes["pbc"].append(pk)
        if sample is None:
            sample = {"cell": cell.round(4).tolist(), "pbc": pbc.tolist(), "positions": pos.round(4).tolist(), "axis": axis, "min_size": ms}
    return n_exec, keys, classes, sample


def run_pipeline(case, rec):
    import matid
    from ase.build import mx2, graphene
    from gen import structures
    rng = np.random.default_rng(case["seed"])
    _state["context"] = "pipeline"
    before = {k: rec.counter(M[k])["judged"] for k in ("minimized_cell_post", "to_scaled_post", "swap_basis_post")}
    which = ["SBC", "SymmetryAnalyzer2D", "Classifier"][int(rng.integers(3))]
    try:
        if which == "SymmetryAnalyzer2D":
            a = [mx2("MoS2", vacuum=float(rng.uniform(3, 8))), graphene(vacuum=float(rng.uniform(3, 8))),
                 mx2("WSe2", kind="1T", vacuum=5.0)][int(rng.integers(3))]
            a = a.repeat((int(rng.integers(1, 3)), int(rng.integers(1, 3)), 1))
            perm = [int(x) for x in rng.permutation(3)]
            cell = a.get_cell().array[perm]
            a.set_cell(cell); a.set_pbc(np.array([True, True, False])[perm])
            matid.SymmetryAnalyzer(a, 0.1, min_2d_thickness=float(rng.choice([0.5, 1, 3]))).get_conventional_system()
        else:
            fam = ["slab", "crystal", "two_crystals", "defective"][int(rng.integers(4))]
            atoms, meta = structures.random_structure(rng, max_atoms=100, family=fam)
            if which == "SBC":
                matid.SBC().get_clusters(atoms)
            else:
                matid.Classifier().classify(atoms)
    except Exception as e:
        rec.note("pipeline_exception:%s" % type(e).__name__)
    judged = sum(rec.counter(M[k])["judged"] - v for k, v in before.items())
    keys = set()
    if judged:
        keys.add("pipeline|%s" % which)
    return 1, keys, {"pipeline": which}, {"pipeline": which, "contract_evaluations": judged}


def run_case(case):
    rec = core.Recorder()
    core.set_recorder(rec)
    try:
        if case["kind"] == "direct":
            n_exec, keys, classes, sample = run_direct(case, rec)
        else:
            n_exec, keys, classes, sample = run_pipeline(case, rec)
    finally:
        core.set_recorder(None)
    out = rec.export()
    out["info"] = {"keys": sorted(keys), "nontrivial": bool(keys), "classes": classes, "n_exec": n_exec}
    out["sample"] = sample
    return out
