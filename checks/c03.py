"""C03 - SBC separates a two-material stack into exactly the two slabs.

Case rule on SBC().get_clusters(stack) with default parameters: exactly two clusters whose index sets are the
generator's two slabs (tracked through the permutation), each with dimensionality 2.  Enumerated cells
(gen/slabs.c03_cells): ordered metal pairs with < 5 % mismatch x facet x layers x lateral size x pbc x noise x
interface registry; presentation pool per (cell, VERIF_SEED mod 4, k)."""
import os

import numpy as np

from checks import sbcfam
from gen import slabs, structures
from monitors import core, pipeline
from harness import main as hmain

ID = "C03"
LEVEL = "exploration"
RULE = ("enumerated cells: ordered pairs of distinct fcc metals on (100)/(111) and bcc metals on (100)/(110) with lattice "
        "mismatch < 5 % (B strained in plane to A) x layers {3+3, 4+3, 3+5} x lateral 4x4/5x5 x pbc TTT/TTF x noise "
        "{0, 0.03} x registry {on-top, hollow} (+ for pbc TTT a vacuum-free periodic superlattice variant); interface at bonding distance (sum of covalent radii + 0.25 A); each cell in "
        "a presentation (rotation, translation, permutation, SBC seed) from its pool. Cells failing the independent bonding / "
        "overlap / interface precondition are discarded and counted. thorough = every cell, quick = VERIF_SEED-chosen subset "
        "(+ listed findings' cells). distinct = cell keys judged")
ASSUMPTIONS = ["ASE surface builders and reference lattice constants", "brute-force minimum-image bonding precondition (ASE covalent radii)",
               "default SBC parameters"]
CASE_TIMEOUT = 900
BUDGET_S = {"quick": 900, "thorough": 3400}
NAME = "two_slab_rule"
worker_init = sbcfam.worker_init


def floors(tier):
    return {NAME: 120 if tier == "quick" else 2000}


def gen_cases(tier, seed):
    universe = slabs.c03_cells()
    sc = seed % 4
    flt = os.environ.get("VERIF_C03_ONLY")       # one-off sweeps of a newly added part of the universe
    if flt:
        universe = [c for c in universe if flt in c["key"]]
    if tier == "thorough":
        chosen = universe
    else:
        rng = np.random.default_rng([seed, 3])
        chosen = [universe[i] for i in rng.choice(len(universe), size=min(320, len(universe)), replace=False)]
        # stratum: compact superlattices (the members in which a slab's periodic images come closest)
        have = {c["key"] for c in chosen}
        compact = [c for c in universe if c["key"].endswith("|compact") and c["key"] not in have]
        if compact:
            chosen += [compact[i] for i in rng.choice(len(compact), size=min(100, len(compact)), replace=False)]
        listed = {f["key"].split("|", 1)[1] for f in hmain.load_known(ID) if f["key"].startswith("C03|")}
        have = {c["key"] for c in chosen}
        extra = [c for c in universe if c["key"] in listed and c["key"] not in have]
        if len(extra) > 8:           # re-observe a sample of the listed cells
            extra = [extra[i] for i in rng.choice(len(extra), size=8, replace=False)]
        chosen += extra
    return [{"cell": c, "seed_class": sc, "k": 0} for c in chosen]


def run_case(case):
    import matid
    cell = case["cell"]
    rec = core.Recorder()
    info0 = {"nontrivial": False, "classes": {}}
    try:
        base, groups = slabs.build_c03(cell)
    except Exception as e:
        out = rec.export(); out["discarded"] = "builder:%s" % type(e).__name__; out["info"] = info0
        return out
    rng = np.random.default_rng(slabs.stable_seed(cell["key"], case["seed_class"], case["k"]))
    atoms, mapped = slabs.present(base, rng, noise=cell["noise"], track=groups)
    # decorations that must not matter (own random stream: the presentation itself is unchanged)
    drng = np.random.default_rng(slabs.stable_seed(cell["key"], case["seed_class"], 977))
    decorations = structures.decorate(atoms, drng) if drng.random() < 0.35 else []
    ok, why = slabs.bonding_precondition(atoms)
    if ok and not slabs.interface_precondition(atoms, mapped):
        ok, why = False, "slabs_not_bonded_across_interface"
    if not ok:
        out = rec.export(); out["discarded"] = "precondition:%s" % why; out["info"] = info0
        return out
    sbc_seed = int(rng.integers(0, 1000))
    core.set_recorder(rec)
    obs = {}
    try:
        rec.call(NAME)
        try:
            clusters = matid.SBC().get_clusters(atoms, seed=sbc_seed)
        except Exception as e:
            clusters = None
            obs["exception"] = repr(e)[:200]
        rec.judged(NAME)
        wit = {"input": pipeline.describe(atoms), "cell": cell, "sbc_seed": sbc_seed, "seed_class": case["seed_class"], "k": case["k"],
               "slab_A": mapped["A"], "slab_B": mapped["B"]}
        if clusters is None:
            rec.violation(NAME, "C03|%s" % cell["key"], "get_clusters raised %s" % obs["exception"], wit)
        else:
            got = sorted(sorted(int(i) for i in c.indices) for c in clusters)
            exp = sorted([mapped["A"], mapped["B"]])
            obs["sizes"] = sorted((len(g) for g in got), reverse=True)[:6]
            obs["expected_sizes"] = sorted((len(mapped["A"]), len(mapped["B"])), reverse=True)
            if got != exp:
                rec.violation(NAME, "C03|%s" % cell["key"], "%s: expected exactly the two slabs (%s atoms), got %d cluster(s) of sizes %s"
                              % (cell["key"], obs["expected_sizes"], len(got), obs["sizes"]), wit)
            else:
                with core.suspend():
                    dims = [c.get_dimensionality() for c in clusters]
                obs["dims"] = dims
                if dims != [2, 2]:
                    rec.violation(NAME, "C03|%s" % cell["key"], "%s: slab dimensionalities %s, expected [2, 2]" % (cell["key"], dims), wit)
    finally:
        core.set_recorder(None)
    out = rec.export()
    out["info"] = {"key": cell["key"], "nontrivial": True,
                   "classes": {"decorated": bool(decorations), "pair": "%s/%s" % (cell["A"], cell["B"]), "facet": cell["facet"], "pbc": ("TTT" if cell["pbc_z"] else "TTF") + ("" if cell.get("vac", True) else "-novac"),
                               "noise": cell["noise"], "registry": cell["registry"], "layers": "%d+%d" % (cell["la"], cell["lb"]), "lateral": cell["n"]}}
    out["sample"] = {"cell": cell["key"], "natoms": len(atoms), "observed": obs}
    return out
