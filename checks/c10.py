"""C10 - the displacement tensor is a sound and, within range, exact minimum-image table.

Deciding monitor: postcondition on matid.geometry.get_displacement_tensor (bound on package and module,
so get_distances / get_dimensionality / SBC / Classifier calls are observed in situ as well), judged
against brute-force lattice sums with a proven search radius (oracles/mic.py), themselves cross-checked on sampled
pairs by a wide exhaustive lattice search (ASE's find_mic turned out to be unreliable for sheared cells, DESIGN.md 11).
"""
import os

import numpy as np

from harness import env
from monitors import core, geom
from gen import cells
from oracles import mic as omic

ID = "C10"
LEVEL = "exploration"
RULE = ("cases = batches of random get_displacement_tensor/get_distances calls (1-10 atoms inside orthogonal/"
        "triclinic/sheared/needle/plate/small cells, rotated, all 8 pbc masks, cutoff in {None, inf, 0.5-10 A, exactly "
        "a cell height, exactly a pair distance}) on the installed binding, a fresh build and an ASan+UBSan build, "
        "plus SBC/Classifier pipeline runs observed in situ; an execution is non-trivial when at least one pair is "
        "judged and periodic images matter (some pbc) or a finite cutoff separates pairs; distinct = (cell kind, pbc "
        "mask, cutoff class, n atoms, lane, context)")
ASSUMPTIONS = ["numpy linear algebra; the brute-force oracle is cross-checked by a wide exhaustive search on sampled pairs", "ctypes adapter validated bit-for-bit against the installed binding at run time",
               "ASan red zones / UBSan checks only see executed paths"]
CASE_TIMEOUT = 300
BUDGET_S = {"quick": 600, "thorough": 3000}

NAME = "displacement_tensor_post"


def floors(tier):
    return {NAME: 2000 if tier == "quick" else 50000}


def gen_cases(tier, seed):
    has_installed = bool([f for f in os.listdir(os.path.join(env.REPO, "matid")) if f.startswith("ext.cpython")])
    ss = np.random.SeedSequence([seed, 10])
    q = tier == "quick"
    plan = [("plain", 24 if q else 400, 60), ("san", 6 if q else 80, 40)]
    if has_installed:
        plan.insert(0, ("installed", 24 if q else 400, 60))
    cases = []
    for lane, nb, bsize in plan:
        for k, child in enumerate(ss.spawn(nb)):
            cases.append({"kind": "direct", "lane": lane, "seed": int(child.generate_state(1)[0]), "n": bsize})
    # in-situ pipeline slices
    for lane, nb in (("plain", 12 if q else 150), ("san", 2 if q else 30)):
        for child in ss.spawn(nb):
            cases.append({"kind": "pipeline", "lane": lane, "seed": int(child.generate_state(1)[0])})
    return cases


_state = {}


def worker_init(lane):
    import matid.geometry
    import matid.geometry.geometry as gg
    _state["lane"] = lane
    _state["rng"] = np.random.default_rng(0)
    _state["context"] = "direct"

    def post(rec, snap, result, exc, positions, cell=None, pbc=False, cutoff=float("inf"),
             return_factors=False, return_distances=False):
        if exc is not None:
            rec.call(NAME)
            rec.violation(NAME, "C10|exception|%s" % type(exc).__name__, "get_displacement_tensor raised %r" % (exc,),
                          geom.structure_witness(positions, np.eye(3) if cell is None else cell, geom.omic_expand(pbc), cutoff=repr(cutoff)))
            return
        res = result if isinstance(result, tuple) else (result,)
        D = res[0]
        F = dist = None
        k = 1
        if return_factors:
            F = res[k]; k += 1
        if return_distances:
            dist = res[k]
        geom.check_displacement_tensor(rec, NAME, _state["lane"], positions, cell, pbc, cutoff, D, F, dist,
                                       _state["rng"], context=_state["context"])

    core.bind([matid.geometry, gg], "get_displacement_tensor", core.observe(post))


def _cutoff_choice(rng, pos, cell, pbc):
    h = omic.heights(cell, pbc)
    hfin = h[np.isfinite(h)]
    r = rng.random()
    if r < 0.12:
        return None, "None"
    if r < 0.24:
        return float("inf"), "inf"
    if r < 0.36 and len(hfin):
        return float(rng.choice(hfin)), "exact-height"
    if r < 0.48 and len(pos) > 1:
        i, j = rng.choice(len(pos), 2, replace=False)
        _, d, _ = omic.mic_vectors(pos[i] - pos[j], cell, pbc)
        if d[0] > 1e-6:
            return float(d[0]), "exact-pair-distance"
    return float(rng.uniform(0.5, 10.0)), "finite"


def _n_images(cell, pbc, cutoff):
    h = omic.heights(cell, pbc)
    n = 1
    ext = cutoff
    if not np.isfinite(cutoff):
        ext = max([np.linalg.norm(cell[i]) for i in range(3) if pbc[i]] + [0.0])
    for i in range(3):
        if pbc[i]:
            n *= 2 * int(np.ceil(ext / h[i])) + 1
    return n


def run_direct(case, rec):
    import matid.geometry
    from ase import Atoms
    rng = np.random.default_rng(case["seed"])
    _state["rng"] = np.random.default_rng(case["seed"] + 1)
    _state["context"] = "direct"
    keys = set()
    classes = {"cell_kind": [], "pbc": [], "cutoff": [], "natoms": [], "api": []}
    n_exec = 0
    sample = None
    for it in range(case["n"]):
        hostile = rng.random() < 0.2           # strongly sheared periodic cell + unbounded / very long cutoff + many atoms
        cell, kind = cells.random_cell(rng, lo=2.0, hi=10.0, kind="sheared" if hostile else None)
        pbc = np.array(cells.PBCS[int(rng.integers(8))]) if not hostile else np.array(cells.PBCS[int(rng.integers(1, 8))])
        n = int(rng.integers(1, 11)) if not hostile else int(rng.integers(7, 11))
        pos, _, mode = cells.positions_inside(rng, cell, n, mode="uniform" if hostile else None)
        cutoff, cclass = _cutoff_choice(rng, pos, cell, pbc)
        if hostile:
            u = rng.random()
            if u < 0.35:
                cutoff, cclass = None, "None"
            elif u < 0.7:
                cutoff, cclass = float("inf"), "inf"
            else:
                # a FINITE cutoff beyond the longest periodic cell vector (the extension an unbounded cutoff uses)
                lmax = max(np.linalg.norm(cell[i]) for i in range(3) if pbc[i])
                cutoff, cclass = float(lmax * rng.uniform(1.05, 2.5)), "finite>longest-periodic-vector"
        if _n_images(cell, pbc, np.inf if cutoff is None else cutoff) * n > 60000:
            cutoff, cclass = float(rng.uniform(0.5, 3.0)), "finite"
            if _n_images(cell, pbc, cutoff) * n > 60000:
                continue
        use_distances_api = rng.random() < 0.15
        before = rec.counter(NAME)["judged"]
        if use_distances_api:
            sysm = Atoms(numbers=rng.integers(1, 90, n), positions=pos, cell=cell, pbc=pbc)
            dobj = matid.geometry.get_distances(sysm)
            # the Distances container must carry the same tables, radii subtracted once
            from ase.data import covalent_radii
            r = covalent_radii[sysm.get_atomic_numbers()]
            exp = dobj.dist_matrix_mic - (r[:, None] + r[None, :])
            rec.call("distances_container")
            rec.judged("distances_container")
            if not np.allclose(dobj.dist_matrix_radii_mic, exp, rtol=0, atol=1e-9, equal_nan=True):
                rec.violation("distances_container", "C10|distances-radii", "dist_matrix_radii_mic != dist_matrix_mic - r_i - r_j",
                              geom.structure_witness(pos, cell, pbc))
            cclass = "inf(get_distances)"
        else:
            kw = {}
            if cutoff is not None or rng.random() < 0.5:
                kw["cutoff"] = cutoff
            # the same call with the arguments in any of the forms the API accepts (pbc as ndarray / list / tuple of
            # bools or 0/1 integers or one bool; arrays C- or Fortran-ordered, read-only or strided views)
            pbc_arg, pform = cells.pbc_form(rng, pbc)
            pos_arg, aform = cells.array_form(rng, pos)
            if aform == "list":
                pos_arg, aform = pos, "c"
            cell_arg, cform = cells.array_form(rng, cell)
            snap = (pos.copy(), cell.copy())
            matid.geometry.get_displacement_tensor(pos_arg, cell_arg, pbc_arg, return_factors=True, return_distances=True, **kw)
            rec.call("arguments_untouched"); rec.judged("arguments_untouched")
            if not (np.array_equal(np.asarray(pos_arg), snap[0]) and np.array_equal(np.asarray(cell_arg, float), snap[1])):
                rec.violation("arguments_untouched", "C10|arguments-modified", "get_displacement_tensor changed its input arrays",
                              geom.structure_witness(pos, cell, pbc))
            classes.setdefault("pbc_form", []).append(pform); classes.setdefault("array_form", []).append(aform + "/" + cform)
        n_exec += 1
        judged = rec.counter(NAME)["judged"] - before
        if judged > 0 and (pbc.any() or cclass not in ("inf", "None")):
            keys.add("%s|%s|%s|%d|%s" % (kind, "".join("TF"[not b] for b in pbc), cclass, n, _state["lane"]))
        classes["cell_kind"].append(kind); classes["pbc"].append("".join("TF"[not b] for b in pbc))
        classes["cutoff"].append(cclass); classes["natoms"].append(n)
        classes["api"].append("get_distances" if use_distances_api else "get_displacement_tensor")
        if sample is None:
            sample = {"cell": cell.round(4).tolist(), "pbc": pbc.tolist(), "positions": pos.round(4).tolist(),
                      "cutoff": repr(cutoff), "pairs_judged": judged}
    return n_exec, keys, classes, sample


def run_pipeline(case, rec):
    from gen import structures
    import matid
    rng = np.random.default_rng(case["seed"])
    _state["rng"] = np.random.default_rng(case["seed"] + 1)
    _state["context"] = "pipeline"
    atoms, meta = structures.random_structure(rng, max_atoms=120)
    before = rec.counter(NAME)["judged"]
    which = "SBC" if rng.random() < 0.6 else "Classifier"
    try:
        if which == "SBC":
            matid.SBC().get_clusters(atoms)
        else:
            matid.Classifier().classify(atoms)
    except Exception as e:
        rec.note("pipeline_exception:%s" % type(e).__name__)
    judged = rec.counter(NAME)["judged"] - before
    keys = set()
    if judged:
        keys.add("pipeline|%s|%s|%s|%d" % (which, meta["family"], meta["pbc"], len(atoms) // 20))
    classes = {"pipeline": which, "family": meta["family"], "pbc": meta["pbc"], "natoms_bucket": len(atoms) // 20 * 20}
    return 1, keys, classes, {"pipeline": which, "family": meta["family"], "natoms": len(atoms), "pairs_judged": judged}


def run_case(case):
    rec = core.Recorder()
    core.set_recorder(rec)
    try:
        if case["kind"] == "direct":
            n_exec, keys, classes, sample = run_direct(case, rec)
        else:
            n_exec, keys, classes, sample = run_pipeline(case, rec)
    finally:
        core.set_recorder(None)
    out = rec.export()
    out["info"] = {"keys": sorted(keys), "nontrivial": bool(keys), "classes": classes, "n_exec": n_exec}
    out["sample"] = sample
    return out


def crash_key(case, rep):
    return "C10|crash|%s|%s" % (case.get("lane"), rep.get("signal") or rep.get("returncode"))
