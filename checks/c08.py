"""C08 - reported free Wyckoff parameters regenerate the atoms of their set.

Deciding monitor: postcondition on get_wyckoff_sets_conventional(return_parameters=True) and
get_has_free_wyckoff_parameters (monitors/sym.py check_parameters): variables named by the representative are
exactly those reported, values in [0,1), substitution lands on an atom of the set.

Workload: every (space group, Wyckoff letter) cell of the 230 groups is targeted on every run.  Candidates for a
cell are *generated* from MatID's own expression with random parameter values plus a general orbit of a second
species (coverage completion); the oracle does not use that knowledge: the position is accepted as occupying the
cell only if spglib independently assigns the targeted letter to it, and the judgement is the substitution test."""
import numpy as np

from checks import symfam
from gen import crystals230 as cg
from monitors import core, sym

ID = "C08"
LEVEL = "exploration"
EXHAUSTIVE = True
RULE = ("exhaustive over the 1731 (space group, Wyckoff letter) cells: each cell occupied with random parameter values "
        "(1 draw per cell in quick, 4 in thorough) together with a general orbit of another species, as generated or "
        "re-presented; plus the random C05 family and 2D layers. A cell counts as reached only when spglib assigns the "
        "targeted letter to the generated orbit and the crystal passes the conditioning filter. Non-trivial = analysis with "
        "at least one set carrying a parameter; distinct = (group, letter) cells reached + random-family keys")
ASSUMPTIONS = ["spglib 2.7 letter assignment decides whether a generated orbit occupies the targeted cell",
               "MatID's expressions are used to generate candidates only", "symmetry tolerance 0.01 A"]
CASE_TIMEOUT = 300
BUDGET_S = {"quick": 600, "thorough": 3000}
NAME = "wyckoff_parameters_post"
TOL = symfam.TOL


def floors(tier):
    return {NAME: 1500 if tier == "quick" else 12000}


def worker_init(lane):
    sym.bind_all()


def gen_cases(tier, seed):
    ss = np.random.SeedSequence([seed, 8])
    draws = 1 if tier == "quick" else 8
    cases = []
    for no, child in zip(range(1, 231), ss.spawn(230)):
        cases.append({"kind": "cells", "group_no": no, "seed": int(child.generate_state(1)[0]), "draws": draws})
    fam = symfam.gen_cases(tier, seed, 8, per_group=0, n_pres=2, extra_random=100 if tier == "quick" else 3000)
    for c in fam:
        c["kind"] = "family"
    layers = [{"kind": "layer2d", "seed": int(ch.generate_state(1)[0])} for ch in ss.spawn(20 if tier == "quick" else 200)]
    return cases + fam + layers


def occupy_cell(rng, no, letter, info, translations):
    """Candidate crystal with the targeted position occupied (generation uses MatID's expression)."""
    from oracles import exprs
    rep = info["expressions"][0]
    vals = {v: float(rng.uniform(0.06, 0.44)) for v in "xyz"}
    pt = np.mod(exprs.evaluate(rep, vals), 1.0)
    gen = rng.random(3)
    z1, z2 = (int(z) for z in rng.choice(cg.SPECIES, size=2, replace=False))
    cellpar = cg.random_cellpar(rng, no)
    scale = float(rng.uniform(1.0, 1.5))
    cellpar = [x * scale for x in cellpar[:3]] + cellpar[3:]
    from ase.spacegroup import crystal
    from ase import Atoms
    for prim in (False, True):
        try:
            a = crystal([z1, z2], [tuple(pt), tuple(gen)], spacegroup=no, cellpar=cellpar, onduplicates="error",
                        primitive_cell=prim, symprec=1e-4)
        except Exception:
            return None
        if len(a) <= 150:
            break
    else:
        return None
    if cg.min_distance(a) < 0.7:
        return None
    return Atoms(numbers=a.get_atomic_numbers(), positions=a.get_positions(), cell=a.get_cell().array, pbc=True), z1


def run_cells(case, rec):
    import matid
    from matid.data.symmetry_data import WYCKOFF_SETS
    no = case["group_no"]
    rng = np.random.default_rng(case["seed"])
    table = WYCKOFF_SETS[no]
    letters = sorted(k for k in table if k != "translations")
    reached, unreached, keys = [], [], set()
    credited = set()
    n_exec = 0
    with_param = 0
    sample = None
    for letter in letters:
        hits = 0
        for attempt in range(12 * case["draws"]):
            if hits >= case["draws"] or (attempt >= 6 * case["draws"] and letter in credited):
                break
            got = occupy_cell(rng, no, letter, table[letter], table["translations"])
            if got is None:
                continue
            atoms, z1 = got
            ok, reason, ds = cg.stable(atoms, no, TOL)
            if not ok:
                continue
            # independent confirmation that the targeted cell is occupied
            wy = set(w for w, z in zip(ds.wyckoffs, atoms.get_atomic_numbers()) if z == z1)
            if len(wy) != 1:
                rec.note("candidate_not_one_orbit")
                continue
            named = wy.pop()          # the cell this orbit occupies is the one spglib names, whatever was targeted
            if named != letter:
                rec.note("candidate_named_differently_by_spglib")
            if rng.random() < 0.5:
                prng = np.random.default_rng([case["seed"], attempt])
                a2, _ = cg.present(prng, atoms, max_atoms=200)
                ok2, _, _ = cg.stable(a2, no, TOL)
                if ok2:
                    atoms = a2
            before = rec.counter(NAME)["judged"]
            an = matid.SymmetryAnalyzer(atoms, symmetry_tol=TOL)
            try:
                sets = an.get_wyckoff_sets_conventional(return_parameters=True)
                an.get_has_free_wyckoff_parameters()
            except Exception as e:
                sets = None     # recorded by the monitor (C08|exception|...)
            n_exec += 1
            credited.add(named)
            if named == letter:
                hits += 1
            if sets is not None and any(s.x is not None or s.y is not None or s.z is not None for s in sets):
                with_param += 1
            if sample is None and sets is not None:
                sample = {"group": no, "targeted_letter": letter, "natoms": len(atoms),
                          "sets": [(s.wyckoff_letter, s.element, s.multiplicity, s.x, s.y, s.z, list(s.representative)) for s in sets]}
    for letter in letters:
        if letter in credited:
            reached.append(letter)
            keys.add("%d|%s" % (no, letter))
        else:
            unreached.append(letter)
    return n_exec, keys, {"space_group": no}, sample, {"reached": reached, "unreached": unreached, "with_param": with_param}


def run_case(case):
    if case["kind"] == "family":
        out, obs, atoms, meta = symfam.run_crystal_case(case, ("labels", "conv", "sets_params"), NAME, "C08")
        return out
    rec = core.Recorder()
    core.set_recorder(rec)
    try:
        if case["kind"] == "cells":
            n_exec, keys, classes, sample, data = run_cells(case, rec)
        else:
            n_exec, keys, classes, sample, data = run_layer(case, rec)
    finally:
        core.set_recorder(None)
    out = rec.export()
    out["info"] = {"keys": sorted(keys), "nontrivial": bool(keys), "classes": classes, "n_exec": n_exec}
    out["sample"] = sample
    out["data"] = data
    return out


def run_layer(case, rec):
    import matid
    from gen import layers2d
    rng = np.random.default_rng(case["seed"])
    atoms, meta = layers2d.random_layer(rng)
    keys = set()
    sample = None
    if atoms is not None:
        an = matid.SymmetryAnalyzer(atoms, symmetry_tol=TOL)
        try:
            sets = an.get_wyckoff_sets_conventional(return_parameters=True)
            an.get_has_free_wyckoff_parameters()
            keys.add("2D|%s|%s" % (meta["source"], an.get_space_group_number()))
            sample = {"layer": meta, "sets": [(s.wyckoff_letter, s.element, s.multiplicity, s.x, s.y, s.z) for s in sets]}
        except Exception:
            pass
    return 1, keys, {"kind": "2D-layer"}, sample, {}


def offline(cases, results, tier):
    reached, unreached = 0, []
    for c, r in zip(cases, results):
        if c.get("kind") == "cells" and r["status"] == "ok":
            d = r["result"].get("data") or {}
            reached += len(d.get("reached", []))
            unreached += ["%d%s" % (c["group_no"], l) for l in d.get("unreached", [])]
    return [], {"cells_total": 1731, "cells_reached": reached, "cells_unreached": unreached[:80], "cells_unreached_count": len(unreached)}
