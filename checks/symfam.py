"""Shared workload of the symmetry family (C05, C06, C07, C08, C12, C15): crystals of all 230 groups from
gen/crystals230.py, each analysed in several presentations by the real SymmetryAnalyzer with the monitors of
monitors/sym.py bound onto its getters."""
import numpy as np

from gen import crystals230 as cg
from monitors import core, sym

TOL = 0.01
LEVEL = "exploration"
CASE_TIMEOUT = 240


def gen_cases(tier, seed, tag, per_group, n_pres, extra_random=0, special_bias=0.5):
    """One case per (crystal, presentation).  Presentation 0 is the crystal as generated; members of one crystal
    alternate between the two PYTHONHASHSEED worker groups."""
    ss = np.random.SeedSequence([seed, tag])
    cases = []
    groups = [no for no in range(1, 231) for _ in range(per_group)]
    rng = np.random.default_rng(ss.spawn(1)[0])
    groups += [int(x) for x in rng.integers(1, 231, size=extra_random)]
    for cid, (no, child) in enumerate(zip(groups, ss.spawn(len(groups)))):
        s = int(child.generate_state(1)[0])
        for j in range(n_pres):
            cases.append({"crystal": cid, "group_no": no, "seed": s, "pres": j, "group": j % 2, "special_bias": special_bias})
    return cases


def gen_pseudo_cases(tier, seed, tag, per_group, n_pres=2, groups=range(1, 75)):
    """Pseudo-symmetric sub-family: triclinic / monoclinic / orthorhombic crystals (tetragonal .. hexagonal optional)
    on a near-metric lattice with mostly special positions - the members whose group an angular or relative
    tolerance would raise, although every distance criterion within 10x the tolerance keeps it."""
    ss = np.random.SeedSequence([seed, tag, 4711])
    groups = [no for no in groups for _ in range(per_group)]
    cases = []
    for cid, (no, child) in enumerate(zip(groups, ss.spawn(len(groups)))):
        s = int(child.generate_state(1)[0])
        for j in range(n_pres):
            cases.append({"kind": "pseudo", "crystal": 40_000_000 + cid, "group_no": no, "seed": s, "pres": j, "group": j % 2,
                          "special_bias": 0.9, "near_metric": True})
    return cases


def gen_general_first_cases(tier, seed, tag, n_pres=2):
    """Letter-alphabet edge: the general position (the last letter of the group, 'A' = the 27th in Pmmm) occupied
    together with special positions, in the groups with the longest Wyckoff alphabets (generation aid: the number of
    tabulated letters).  Group 47 is the only one whose alphabet runs past 'z'."""
    import sys as _sys
    from harness import env as _env
    if _env.REPO not in _sys.path[:1]:
        _sys.path.insert(0, _env.REPO)
    from matid.data.symmetry_data import WYCKOFF_SETS
    q = tier == "quick"
    groups = []
    for no in range(1, 231):
        n = len(WYCKOFF_SETS[no])
        if n >= (15 if q else 12):
            groups += [no] * (1 if q else 4)
    groups += [47] * (3 if q else 12)
    ss = np.random.SeedSequence([seed, tag, 2747])
    cases = []
    for cid, (no, child) in enumerate(zip(groups, ss.spawn(len(groups)))):
        s = int(child.generate_state(1)[0])
        for j in range(n_pres):
            cases.append({"kind": "general_first", "crystal": 30_000_000 + cid, "group_no": no, "seed": s, "pres": j, "group": j % 2,
                          "special_bias": 0.85, "general_first": True})
    return cases


def moved_letters(no):
    """Letters that some tabulated normalizer of the group maps to another letter (generation aid only)."""
    from matid.data.symmetry_data import CHIRALITY_PRESERVING_EUCLIDEAN_NORMALIZERS as NT
    moved = set()
    for e in NT.get(no, []):
        for k, v in e["permutations"].items():
            if k != v:
                moved.add(str(k)); moved.add(str(v))
    return sorted(moved)


def gen_letter_cases(tier, seed, tag, pairs_per_group, n_pres=2):
    """Targeted sub-family: ordered pairs of Wyckoff letters that normalizers permute, the lighter species on the
    second letter, plus a general orbit of a third species that pins the space group.  The ground-state search then
    has to apply a non-trivial normalizer for many of these crystals.  MatID's tables are used for generation only."""
    import sys as _sys
    from harness import env as _env
    if _env.REPO not in _sys.path[:1]:
        _sys.path.insert(0, _env.REPO)
    rng = np.random.default_rng([seed, tag, 99])
    cases = []
    cid = 10_000_000
    for no in range(1, 231):
        L = moved_letters(no)
        pairs = [(a, b) for a in L for b in L if a != b]
        if not pairs:
            continue
        if pairs_per_group and len(pairs) > pairs_per_group:
            idx = rng.choice(len(pairs), size=pairs_per_group, replace=False)
            pairs = [pairs[i] for i in idx]
        for a, b in pairs:
            s = int(rng.integers(1 << 31))
            for j in range(n_pres):
                cases.append({"kind": "letters", "crystal": cid, "group_no": no, "letters": [a, b], "seed": s, "pres": j, "group": j % 2})
            cid += 1
    return cases


def gen_fixed_cases(tier, seed, tag, combos_per_group, n_pres=3):
    """Cubic crystals that occupy only parameter-free Wyckoff positions (no general orbit): the family for which
    C06 demands an identical conventional cell.  Letter combinations come from MatID's table (generation only)."""
    import itertools
    import sys as _sys
    from harness import env as _env
    if _env.REPO not in _sys.path[:1]:
        _sys.path.insert(0, _env.REPO)
    from matid.data.symmetry_data import WYCKOFF_SETS
    rng = np.random.default_rng([seed, tag, 77])
    cases = []
    cid = 20_000_000
    for no in range(195, 231):
        fixed = sorted(l for l, v in WYCKOFF_SETS[no].items() if l != "translations" and len(v["variables"]) == 0)
        combos = [c for k in (2, 3) for c in itertools.permutations(fixed, k)]
        if not combos:
            continue
        if len(combos) > combos_per_group:
            combos = [combos[i] for i in rng.choice(len(combos), size=combos_per_group, replace=False)]
        for c in combos:
            s = int(rng.integers(1 << 31))
            for j in range(n_pres):
                cases.append({"kind": "fixed", "crystal": cid, "group_no": no, "letters": list(c), "seed": s, "pres": j, "group": j % 2})
            cid += 1
    return cases


def make_fixed_crystal(rng, no, letters, tol):
    from matid.data.symmetry_data import WYCKOFF_SETS
    from oracles import exprs
    from ase.spacegroup import crystal
    from ase import Atoms
    table = WYCKOFF_SETS[no]
    pts = [tuple(np.mod(exprs.evaluate(table[l]["expressions"][0], {}), 1.0)) for l in letters]
    zs = sorted(int(z) for z in rng.choice(cg.SPECIES, size=len(letters), replace=False))[::-1]   # heaviest on the first letter
    a0 = float(rng.uniform(5.0, 9.0))
    try:
        a = crystal(zs, pts, spacegroup=no, cellpar=[a0, a0, a0, 90, 90, 90], onduplicates="error", primitive_cell=bool(rng.random() < 0.5), symprec=1e-4)
    except Exception as e:
        return None, None, {"crystal():" + type(e).__name__: 1}
    if len(a) > 140 or cg.min_distance(a) < 0.7:
        return None, None, {"too_many_or_too_close": 1}
    a = Atoms(numbers=a.get_atomic_numbers(), positions=a.get_positions(), cell=a.get_cell().array, pbc=True)
    ok, reason, ds = cg.stable(a, no, tol)
    if not ok:
        return None, None, {reason: 1}      # typically: only parameter-free sites occupied -> a supergroup
    meta = {"group": no, "cellpar": [a0] * 3 + [90] * 3, "basis": [list(map(float, p_)) for p_ in pts], "symbols": zs,
            "orbit_kinds": ["fixed_%s" % l for l in letters], "primitive_input": False, "natoms": len(a), "system": "cubic", "tries": 1}
    return a, meta, {}


def make_letter_crystal(rng, no, letters, tol, tries=25):
    from matid.data.symmetry_data import WYCKOFF_SETS
    from oracles import exprs
    from ase.spacegroup import crystal
    from ase import Atoms
    table = WYCKOFF_SETS[no]
    discards = {}
    # elemental variant: ONE element on both letters, two orbits on the first (which must carry a free parameter) and
    # one on the second - representations that differ only in how many orbits of that element sit on each letter
    elemental = bool(len(table[letters[0]]["variables"])) and rng.random() < 0.35
    use = [letters[0], letters[0], letters[1]] if elemental else list(letters)
    for k in range(tries):
        pts = []
        for l in use:
            vals = {v: float(rng.uniform(0.06, 0.44)) for v in "xyz"}
            pts.append(tuple(np.mod(exprs.evaluate(table[l]["expressions"][0], vals), 1.0)))
        pts.append(tuple(rng.random(3)))
        zs = sorted(int(z) for z in rng.choice(cg.SPECIES, size=3, replace=False))
        symbols = [zs[1], zs[0], zs[2]]          # heavier on the first letter, lighter on the second, heaviest general
        if elemental:
            symbols = [zs[0], zs[0], zs[0], zs[2]]
        cellpar = cg.random_cellpar(rng, no)
        lattice_mode = cg.LAST_LATTICE_MODE
        sc = 1.0 + 0.5 * k / tries
        cellpar = [x * sc for x in cellpar[:3]] + cellpar[3:]
        a = None
        for prim in (False, True):
            try:
                a = crystal(symbols, pts, spacegroup=no, cellpar=cellpar, onduplicates="error", primitive_cell=prim, symprec=1e-4)
            except Exception as e:
                discards["crystal():" + type(e).__name__] = discards.get("crystal():" + type(e).__name__, 0) + 1
                a = None
                break
            if len(a) <= 140:
                break
        if a is None or len(a) > 140:
            continue
        if cg.min_distance(a) < 0.7:
            discards["atoms_too_close"] = discards.get("atoms_too_close", 0) + 1
            continue
        a = Atoms(numbers=a.get_atomic_numbers(), positions=a.get_positions(), cell=a.get_cell().array, pbc=True)
        ok, reason, ds = cg.stable(a, no, tol)
        if not ok:
            discards[reason] = discards.get(reason, 0) + 1
            continue
        meta = {"group": no, "cellpar": [round(x, 5) for x in cellpar], "basis": [list(map(float, p_)) for p_ in pts], "symbols": symbols,
                "orbit_kinds": ["letter_%s" % l for l in use] + ["general"], "elemental_pair": bool(elemental), "primitive_input": False,
                "natoms": len(a), "system": cg.crystal_system(no), "tries": k + 1, "lattice_mode": lattice_mode}
        return a, meta, discards
    return None, None, discards


_cache = {}


def crystal_for(case):
    """Deterministic regeneration of the crystal (cached per worker) and of the requested presentation."""
    key = (case["group_no"], case["seed"], case.get("special_bias", 0.5), tuple(case.get("letters", ())), case.get("near_metric"), case.get("general_first"))
    if key not in _cache:
        if len(_cache) > 64:
            _cache.clear()
        rng = np.random.default_rng(case["seed"])
        if case.get("kind") == "letters":
            _cache[key] = make_letter_crystal(rng, case["group_no"], case["letters"], TOL)
        elif case.get("kind") == "fixed":
            _cache[key] = make_fixed_crystal(rng, case["group_no"], case["letters"], TOL)
        else:
            _cache[key] = cg.make_crystal(rng, case["group_no"], TOL, special_bias=case.get("special_bias", 0.5), near_metric=case.get("near_metric"),
                                            general_first=bool(case.get("general_first")))
    atoms, meta, discards = _cache[key]
    if atoms is None:
        return None, None, None, discards
    if case["pres"] == 0:
        return atoms.copy(), meta, {"identity": True}, discards
    prng = np.random.default_rng([case["seed"], case["pres"]])
    for _ in range(6):
        a2, info = cg.present(prng, atoms)
        ok, reason, _ = cg.stable(a2, case["group_no"], TOL)     # re-presentation must stay well-conditioned
        if ok:
            return a2, meta, info, discards
    return None, meta, {"unstable_presentation": True}, discards


def worker_init(lane):
    sym.bind_all()


def _quartz():
    from ase.spacegroup import crystal
    return crystal(["Si", "O"], [(0.4697, 0, 0), (0.4135, 0.2669, 0.1191)], spacegroup=152, cellpar=[4.916, 4.916, 5.405, 90, 90, 120])


def _exercise(an):
    try:
        an.get_material_id(); an.get_wyckoff_sets_conventional(True); an.get_primitive_system()
        an.get_wyckoff_letters_original(); an.get_is_chiral(); an.get_has_free_wyckoff_parameters()
    except Exception:
        pass


def derived_input(atoms, kind):
    """The target structure as an object DERIVED from an already analysed Atoms object of a different crystal of the
    family (its inversion image, or the same sites with the species exchanged): copy() and in-place edits keep
    whatever an earlier analysis attached to the object (info, arrays).  Bit-identical to `atoms` in positions, cell,
    numbers and pbc."""
    import matid
    m = atoms.copy()
    if kind == "inversion":
        m.set_positions(-atoms.get_positions())
    else:
        zs = sorted(set(int(z) for z in atoms.get_atomic_numbers()))
        repl = {z: cg.SPECIES[(cg.SPECIES.index(z) + 5) % len(cg.SPECIES)] if z in cg.SPECIES else z + 1 for z in zs}
        if len(set(repl.values())) != len(zs):
            repl = {z: z + 1 for z in zs}
        m.set_atomic_numbers([repl[int(z)] for z in atoms.get_atomic_numbers()])
    with core.suspend():
        _exercise(matid.SymmetryAnalyzer(m, symmetry_tol=TOL))
    t = m.copy()
    t.set_positions(atoms.get_positions())
    t.set_atomic_numbers(atoms.get_atomic_numbers())
    return t


def analyze(atoms, want=("conv", "sets", "sets_params", "chiral", "prim", "labels"), reuse_first=None, first_getter=None,
            interleave_with=None):
    """Calls the real getters (monitors fire in situ).  Returns (observations dict, exceptions dict)."""
    import matid
    other = None
    if interleave_with is not None:
        # history: two analyzers alive at once - the target's analyzer is constructed first, then another crystal's
        # analyzer is constructed AND fully queried, and only then the target's getters are called
        an = matid.SymmetryAnalyzer(atoms, symmetry_tol=TOL)
        other = matid.SymmetryAnalyzer(interleave_with, symmetry_tol=TOL)
        with core.suspend():
            _exercise(other)
    elif reuse_first is not None:
        # history: the analyzer object analysed ANOTHER crystal before (all getters called, caches filled) and is then
        # pointed at the target with set_system(); every postcondition must hold as for a fresh analyzer
        an = matid.SymmetryAnalyzer(reuse_first, symmetry_tol=TOL)
        with core.suspend():
            try:
                an.get_material_id(); an.get_wyckoff_sets_conventional(True); an.get_primitive_system()
                an.get_wyckoff_letters_original(); an.get_is_chiral(); an.get_has_free_wyckoff_parameters()
            except Exception:
                pass
        an.__dict__.pop("_verif_done", None)
        an.set_system(atoms)
    else:
        an = matid.SymmetryAnalyzer(atoms, symmetry_tol=TOL)
    obs, errs = {}, {}
    # lazy getters must not depend on the order in which they are first called: start with a random one
    if first_getter is not None:
        firsts = {"letters_original": an.get_wyckoff_letters_original, "has_free": an.get_has_free_wyckoff_parameters,
                  "primitive": an.get_primitive_system, "letters_primitive": an.get_wyckoff_letters_primitive,
                  "equivalent_conventional": an.get_equivalent_atoms_conventional,
                  "sets_with_parameters": lambda: an.get_wyckoff_sets_conventional(True), "chiral": an.get_is_chiral}
        try:
            firsts[first_getter]()
        except Exception as e:
            errs["first:" + first_getter] = "%s: %s" % (type(e).__name__, str(e)[:300])

    def call(name, fn):
        try:
            return fn()
        except Exception as e:        # judged by the caller
            errs[name] = "%s: %s" % (type(e).__name__, str(e)[:300])
            return None
    if "labels" in want:
        obs["number"] = call("get_space_group_number", an.get_space_group_number)
        obs["hall_number"] = call("get_hall_number", an.get_hall_number)
        obs["point_group"] = call("get_point_group", an.get_point_group)
        obs["bravais"] = call("get_bravais_lattice", an.get_bravais_lattice)
        obs["crystal_system"] = call("get_crystal_system", an.get_crystal_system)
        obs["material_id"] = call("get_material_id", an.get_material_id)
        obs["has_free"] = call("get_has_free_wyckoff_parameters", an.get_has_free_wyckoff_parameters)
    conv = call("get_conventional_system", an.get_conventional_system) if "conv" in want else None
    if conv is not None:
        obs["conv_cellpar"] = sym.cellpar(conv.get_cell().array).tolist()
        obs["conv_numbers"] = conv.get_atomic_numbers().tolist()
        obs["conv_scaled"] = conv.get_scaled_positions().tolist()
    if "sets" in want:
        sets = call("get_wyckoff_sets_conventional(False)", lambda: an.get_wyckoff_sets_conventional(False))
        if sets is not None:
            obs["sets"] = sorted((s.wyckoff_letter, s.element, int(s.multiplicity)) for s in sets)
    if "sets_params" in want:
        sets = call("get_wyckoff_sets_conventional(True)", lambda: an.get_wyckoff_sets_conventional(True))
        if sets is not None:
            obs["sets_params"] = sorted((s.wyckoff_letter, s.element, int(s.multiplicity), s.x, s.y, s.z) for s in sets
                                        if True)
    if "chiral" in want:
        obs["chiral"] = call("get_is_chiral", an.get_is_chiral)
    if "prim" in want:
        prim = call("get_primitive_system", an.get_primitive_system)
        if prim is not None:
            obs["prim_natoms"] = len(prim)
    return obs, errs, an


def run_crystal_case(case, want, exception_monitor, exception_key_prefix):
    """Common run_case body.  Returns the result dict."""
    rec = core.Recorder()
    atoms, meta, pinfo, discards = crystal_for(case)
    out_info = {"classes": {}, "nontrivial": False}
    if atoms is None:
        out = rec.export()
        out["discarded"] = "ill_conditioned_or_unreachable"
        out["info"] = out_info
        out["data"] = {"generator_discards": discards}
        return out, None, None, None
    reuse_first = interleave_with = None
    hr = np.random.default_rng([case["seed"], case["pres"], 4242])
    h = hr.random()
    history = "reuse" if h < 0.2 else "interleaved" if h < 0.4 else "derived" if h < 0.55 else "fresh"
    if history in ("reuse", "interleaved"):
        from ase.build import bulk
        oth = [bulk("Si", "diamond", a=5.43), bulk("NaCl", "rocksalt", a=5.64, cubic=True), bulk("Mg", "hcp", a=3.21, c=5.21),
               bulk("ZnS", "wurtzite", a=3.82, c=6.26), _quartz()][int(hr.integers(5))]
        reuse_first, interleave_with = (oth, None) if history == "reuse" else (None, oth)
    target = atoms
    if history == "derived":
        try:
            target = derived_input(atoms, "inversion" if hr.random() < 0.6 else "species")
        except Exception:
            target, history = atoms, "fresh"
    core.set_recorder(rec)
    try:
        first_getter = None
        if hr.random() < 0.5:
            first_getter = ["letters_original", "has_free", "primitive", "letters_primitive", "equivalent_conventional",
                            "sets_with_parameters", "chiral"][int(hr.integers(7))]
        obs, errs, an = analyze(target, want, reuse_first=reuse_first, first_getter=first_getter, interleave_with=interleave_with)
        if reuse_first is not None:
            rec.note("analyzer_reused_via_set_system")
        rec.note("analyzer_history_%s" % history)
    finally:
        core.set_recorder(None)
    for gname, msg in errs.items():
        rec.call(exception_monitor); rec.judged(exception_monitor)
        rec.violation(exception_monitor, "%s|exception|%s|%s" % (exception_key_prefix, gname, msg.split(":")[0]),
                      "%s raised %s" % (gname, msg), {"input": sym.describe(atoms), "group": case["group_no"], "symmetry_tol": TOL})
    out = rec.export()
    kinds = "+".join(sorted(set(k.rstrip("0123456789") for k in meta["orbit_kinds"])))
    if case.get("kind") in ("letters", "fixed"):
        kinds = case["kind"] + ":" + "".join(case["letters"])
    out["info"] = {"key": "%d|%s|%s|p%d" % (case["group_no"], kinds, len(atoms), case["pres"]), "nontrivial": True,
                   "classes": {"space_group": case["group_no"], "crystal_system": meta["system"], "orbit_kinds": kinds,
                               "presentation": "as_generated" if case["pres"] == 0 else
                               ("supercell" if pinfo.get("det", 1) > 1 else "basis_change/rigid_motion"),
                               "sohncke": case["group_no"] in sym.sohncke_groups(),
                               "lattice": meta.get("lattice_mode", "generic"), "history": history}}
    out["data"] = {"obs": obs, "generator_discards": discards if case["pres"] == 0 else {}}
    out["sample"] = {"group": case["group_no"], "natoms": len(atoms), "orbits": meta["orbit_kinds"], "symbols": meta["symbols"],
                     "cellpar": meta["cellpar"], "presentation": pinfo,
                     "observed": {k: obs.get(k) for k in ("number", "material_id", "sets", "chiral") if k in obs}}
    return out, obs, atoms, meta


def generator_summary(results):
    disc = {}
    for r in results:
        if r and r.get("status") == "ok":
            for k, v in ((r["result"].get("data") or {}).get("generator_discards") or {}).items():
                disc[k] = disc.get(k, 0) + v
    return disc
