#!/venv/bin/python
"""Regenerates MANIFEST.json from the table below (kept in one place so it always validates)."""
import json
import os

HERE = os.path.dirname(os.path.dirname(os.path.abspath(__file__)))

CHECKS = {
    "C10": dict(
        technique="runtime postcondition on get_displacement_tensor/get_distances (direct + in situ in SBC/Classifier) vs brute-force minimum-image oracle; installed binding, fresh build and ASan+UBSan build of the C++ sources",
        text="Every observed call of the displacement-tensor API (thousands of random small systems over all cell shapes/pbc masks/cutoff classes, plus the calls SBC and Classifier really make) is judged pair-by-pair against an independent brute-force minimum-image oracle; the native sources are rebuilt from the working tree and also run under ASan+UBSan. Held = no judged pair deviated; nothing is claimed about inputs outside the sampled family.",
        note="Trusted: numpy linear algebra, ASE find_mic (cross-check), the pybind11 stand-in + ctypes adapter (validated bit-for-bit against the installed binding at setup). Sanitizers only see executed paths.",
        ref="DESIGN.md §4, §6 C10"),
}

PENDING = {}

ALL = ["C%02d" % i for i in range(1, 21)]


def main():
    checks = []
    for pid in ALL:
        if pid not in CHECKS:
            continue
        c = CHECKS[pid]
        checks.append({
            "property_id": pid,
            "quick_cmd": "./check %s quick" % pid,
            "thorough_cmd": "./check %s thorough" % pid,
            "evidence_file": "/verif/evidence/%s.json" % pid,
            "replay_cmd_template": "./check %s quick --replay {path}" % pid,
            "engine": "runtime-monitors",
            "level_claimed": {"category": c.get("category", "exploration"), "text": c["text"], "design_ref": c["ref"]},
            "level_note": c["note"],
            "technique": c["technique"],
        })
    na = [{"property_id": pid, "reason": PENDING.get(pid, "check not built yet (work in progress in this session; planned per DESIGN.md §6)")}
          for pid in ALL if pid not in CHECKS]
    man = {
        "version": 1,
        "setup_cmd": "./setup.sh",
        "hooks": {
            "guard": "MATID_VERIF",
            "enable": "no source hooks: monitors are bound from outside onto the real functions in worker processes started with MATID_VERIF=1 and sys.path[0]=$VERIF_REPO (default /repo); the C++ sources are rebuilt from the working tree behind a C ABI (native/)",
            "baseline_off_cmd": "cd /repo && /venv/bin/python -m pytest -ra -q -p no:cacheprovider --timeout=900 --continue-on-collection-errors",
            "source_commits": [],
            "add_only": True,
        },
        "engines": [{"name": "runtime-monitors", "path": "/verif/harness", "serves_properties": sorted(CHECKS),
                     "kind_free_text": "worker pool running the real code with postcondition monitors, reference-model oracles, offline relational checkers and an ASan+UBSan native lane"}],
        "checks": checks,
        "not_applicable": na,
        "notes": "All checks: ./check <ID> quick|thorough ; env VERIF_SEED, VERIF_REPO (scratch copy for mutant self-tests), VERIF_JOBS. Exit 0 held / 1 violation / 2 inconclusive.",
    }
    with open(os.path.join(HERE, "MANIFEST.json"), "w") as fh:
        json.dump(man, fh, indent=1)
    print("MANIFEST.json: %d checks, %d not_applicable" % (len(checks), len(na)))


if __name__ == "__main__":
    main()
