#!/venv/bin/python
"""Regenerates MANIFEST.json from the table below (kept in one place so it always validates)."""
import json
import os

HERE = os.path.dirname(os.path.dirname(os.path.abspath(__file__)))

CHECKS = {
    "C10": dict(
        technique="runtime postcondition on get_displacement_tensor/get_distances (direct + in situ in SBC/Classifier) vs brute-force minimum-image oracle; installed binding, fresh build and ASan+UBSan build of the C++ sources",
        text="Every observed call of the displacement-tensor API (thousands of random small systems over all cell shapes/pbc masks/cutoff classes, plus the calls SBC and Classifier really make) is judged pair-by-pair against an independent brute-force minimum-image oracle; the native sources are rebuilt from the working tree and also run under ASan+UBSan. Held = no judged pair deviated; nothing is claimed about inputs outside the sampled family.",
        note="Trusted: numpy linear algebra (the brute-force oracle is cross-checked by a wide exhaustive lattice search on sampled pairs), the pybind11 stand-in + ctypes adapter (validated bit-for-bit against the installed binding at setup). Sanitizers only see executed paths.",
        ref="DESIGN.md §4, §6 C10"),
    "C16": dict(
        technique="runtime postconditions on get_extended_system / get_cell_list / neighbour queries / get_matches(_simple) (direct + in situ) vs brute-force image enumeration; structural walk of the live cell-list bins; installed binding, fresh build, ASan+UBSan build",
        text="Every observed extension, neighbour query and position match is compared with a brute-force enumeration of periodic images (exact point-to-parallelepiped distance for completeness of the extension); the live bins of every cell list built from the fresh sources are walked (each stored position in exactly one in-range bin, bin edge >= cutoff). Held = no judged call deviated on the sampled family; the native code is additionally run under ASan+UBSan.",
        note="Trusted: numpy; the pybind11 stand-in/ctypes adapter (bit-identical to the installed binding at setup). Domain = atoms inside the cell, probes inside the cell along periodic axes; other calls are counted out_of_domain.",
        ref="DESIGN.md §4, §6 C16"),
    "C09": dict(
        technique="runtime postcondition on get_dimensionality (direct + in situ) vs union-find/cycle-lattice rank model; relational monitor over presentations (lattice shifts, permutation, rigid motion, supercell, basis change)",
        text="Each observed result is compared with an independent model of the periodic bonding network (integer edge offsets, spanning forest potentials, rank of the cycle lattice) and with the results for re-presentations of the same structure. Held on the sampled family of small systems and on the prototype cells PeriodicFinder really evaluates.",
        note="Trusted: numpy matrix_rank, ASE radii tables. Inputs with a pair within 1e-9 of the bonding threshold or with integer rank != GF(2) rank are counted and not judged.",
        ref="DESIGN.md §6 C09"),
    "C19": dict(
        technique="runtime postcondition on get_radii (exhaustive Z=1..103 x presets, and every in-situ call) vs ASE tables; preset-vs-explicit-array equivalence runs of get_dimensionality and SBC in crash-isolated workers",
        text="The preset table is swept exhaustively on every run and every internal get_radii call is judged; equivalence of preset and explicit array is observed on random structures that contain elements without vdW radii. A worker that dies (NaN reaching native code) is attributed to its case and reported.",
        note="Trusted: ase.data.covalent_radii / vdw_alvarez.vdw_radii as the documented tables.",
        ref="DESIGN.md §6 C19"),
    "C20": dict(
        technique="icontract postconditions (snapshot+ensure, record-and-return) on to_scaled/to_cartesian/get_minimized_cell/swap_basis/complete_cell, direct and in situ; driver relations for round trips, periodic centre of mass and inertia eigen-decomposition",
        text="Contracts stated from the property are evaluated on every call of the real helpers (tens of thousands per run, including the calls SBC, Classifier and the 2D symmetry path make); centre-of-mass equivariance/invariance and the inertia decomposition are checked against independently assembled references.",
        note="Trusted: numpy linear algebra, icontract. Ill-conditioned centre-of-mass inputs (circular resultant < 1e-6) are counted and skipped.",
        ref="DESIGN.md §6 C20"),
    "C05": dict(
        technique="runtime postcondition on SymmetryAnalyzer.get_conventional_system (in situ in every symmetry workload) vs independent spglib search, standardized lattice and a proper-congruence checker over the lattice point group; analyzer call histories (fresh / reused through set_system / two analyzers interleaved / input object derived from an analysed one, random first getter)",
        text="Crystals of all 230 groups (general and special positions from an affine-subspace sampler that does not use MatID's tables) are analysed in several presentations; each returned conventional cell is re-analysed independently and matched against the idealized standardized input by enumerating lattice isometries, which decides 'same crystal up to a proper motion' and so detects mirror images of chiral crystals.",
        note="Trusted: spglib 2.7, ASE space-group tables (generation only), numpy. Ill-conditioned samples are discarded by a stated rule and counted.",
        ref="DESIGN.md §5, §6 C05"),
    "C06": dict(
        technique="offline relational checker over recorded observations of >=3 presentations per crystal analysed in worker processes with different PYTHONHASHSEED",
        text="Labels, Wyckoff multisets, flags and (cubic, parameter-free) conventional cells recorded for rotated/translated/permuted/sheared/supercell presentations of one crystal must be identical; members of a crystal run under different hash seeds so that iteration-order dependence is part of the explored environment.",
        note="Trusted: exactness of the generated re-presentations (integer supercells, orthogonal matrices); spglib for the conditioning filter.",
        ref="DESIGN.md §6 C06"),
    "C07": dict(
        technique="runtime postcondition on get_wyckoff_sets_conventional / letters / equivalent atoms vs orbits generated with independently obtained operations of the returned cell and spglib's own letters",
        text="For every analysed crystal the sets must partition the conventional atoms, agree with per-atom letters/classes, and every atom's orbit under spglib's operations of the returned cell must equal its set; letters are compared with spglib's assignment whenever spglib keeps the returned setting.",
        note="Trusted: spglib get_symmetry / letter assignment on the returned cell.",
        ref="DESIGN.md §6 C07"),
    "C08": dict(
        technique="runtime postcondition on get_wyckoff_sets_conventional(return_parameters=True) / get_has_free_wyckoff_parameters; exhaustive sweep of the 1731 (group, letter) cells on every run",
        text="Each of the 1731 Wyckoff positions is occupied with random parameter values (cell membership decided independently by spglib's letter for the orbit) and the reported parameters are substituted back into the representative, which must land on an atom of the set; also on the random family and on 2D layers (in-plane only).",
        note="Trusted: spglib letters to decide which cell a generated orbit occupies; an independent expression parser. MatID's expressions are used to generate candidates only.",
        ref="DESIGN.md §6 C08", category="exploration"),
    "C12": dict(
        technique="runtime postcondition on get_primitive_system and the per-atom letter/equivalence getters vs counting identities and independent spglib primitivity/group tests",
        text="For all seven centring types the primitive system must have conv/m atoms and volume, be irreducible and of the same group (spglib), and the (letter, element) histograms of original/primitive/conventional descriptions must be in the exact ratio of atom counts.",
        note="Trusted: spglib (group of the primitive cell, standardize_cell as primitivity test).",
        ref="DESIGN.md §6 C12"),
    "C14": dict(
        technique="exhaustive structural walk of the live tables (230 info rows, 1731 Wyckoff positions, all normalizer entries) against spglib's Hall-symbol database, an independent expression parser and spglib letters of probe crystals",
        text="Every table entry is checked on every run: expressions vs numeric matrices, closure/orbit size under the standard-setting operations, N G N^-1 = G, metric preservation, handedness for Sohncke groups, and tabulated letter permutations reproduced on probe crystals.",
        note="Trusted: spglib Hall database (first Hall number = standard setting), spglib letters when it keeps the given setting (others counted uncontrolled).",
        ref="DESIGN.md §6 C14"),
    "C15": dict(
        technique="runtime postcondition on get_is_chiral vs the Sohncke set computed from the Hall database; offline relational check across presentations",
        text="One or more crystals per space group in sheared/supercell/rotated presentations; the flag must equal membership in the 65 Sohncke groups and be identical across presentations.",
        note="Trusted: spglib Hall database; spglib group detection.",
        ref="DESIGN.md §6 C15"),
    "C01": dict(
        technique="runtime postcondition bound on SBC.get_clusters (bit-exact input snapshot, well-formedness, disjointness, species, connectivity by an independent brute-force bonding oracle, prototype-cell periodicity, exception rule) + stage recorders; determinism by repeated call and by an offline comparison of runs under different PYTHONHASHSEED",
        text="Hundreds (quick) to thousands (thorough) of hostile structures of the stated family are clustered with varied parameters; each return value (or exception) is judged by the postcondition, connectivity is decided on the caller's own structure by an oracle that shares no code with MatID, and recorders show how often merge/localize/clean really acted. Thorough adds an ASan+UBSan lane.",
        note="Trusted: numpy brute-force minimum image, ASE radii tables. Connectivity is judged with bond_threshold + 1e-9.",
        ref="DESIGN.md §6 C01"),
    "C02": dict(
        technique="case rule on SBC().get_clusters over an enumerated universe of single-crystal cells x presentation pool, with an independent bonding precondition; known heuristic misses keyed by cell",
        text="Every cell (material x bulk/facet x layers x pbc x noise) of the finite universe is generated in a rotated/translated/permuted presentation and must come back as one complete cluster of dimensionality 3/2. The search is a heuristic: cells on which it genuinely fails are listed as known findings by cell key, so a regression shows up as failures in unlisted cells.",
        note="Trusted: ASE builders/lattice constants; brute-force bonding precondition. Thorough enumerates all cells for the seed class VERIF_SEED mod 4.",
        ref="DESIGN.md §5, §6 C02"),
    "C03": dict(
        technique="case rule on SBC().get_clusters over an enumerated universe of two-metal stacks (index sets tracked through the permutation) with bonding/interface precondition",
        text="Each stack cell (ordered metal pair with <5 % mismatch x facet x layers x lateral size x pbc x noise x registry) must be split into exactly its two slabs, each of dimensionality 2.",
        note="Trusted: ASE surface builders; brute-force bonding precondition.",
        ref="DESIGN.md §6 C03"),
    "C04": dict(
        technique="case rule comparing SymmetryAnalyzer(cluster.get_cell()) with the analysis of the source unit cell over the enumerated single-crystal + monolayer universe; symmetry monitors bound in situ (advisory)",
        text="For every cell that SBC returns as one complete cluster, the prototype cell must reproduce material id, space group and Wyckoff occupation of the source, have the right number of periodic directions and hold whole formula units.",
        note="Trusted: ASE builders; the source analysis uses the same analyzer at the same tolerance.",
        ref="DESIGN.md §6 C04"),
    "C11": dict(
        technique="runtime postcondition on the 2D conventional system + offline relational checker across presentations (vacuum, all 6 axis relabellings, in-plane supercells, SO(3) incl. flips, translations, permutations) recorded under different PYTHONHASHSEED",
        text="Sheets generated in 38 layer-compatible symmorphic groups plus graphene/BN/MX2 are analysed in several presentations; pbc, containment and thickness rule are judged per analysis and id/group/Wyckoff multiset/in-plane lattice must be identical across presentations; the id must differ from the 3D id.",
        note="Trusted: spglib for the conditioning filter on a replica of the analysed cell; exactness of the re-presentations.",
        ref="DESIGN.md §6 C11"),
    "C13": dict(
        technique="runtime postcondition on every cluster returned by SBC.get_clusters: shortcut (twice) vs direct get_dimensionality with the radii/threshold of the clustering; stage recorders mark clusters that lost atoms after region tracking",
        text="The workload is biased to finite crystallites, vacancy shells and two-grain cells so that localization and cleaning really remove atoms (counted in the evidence), with covalent/vdw/vdw_covalent/custom radii.",
        note="Trusted: matid.geometry.get_dimensionality as reference (itself decided by C09).",
        ref="DESIGN.md §6 C13"),
    "C17": dict(
        technique="runtime postcondition on Classifier.classify (input snapshot, class vs dimensionality of the wrapped structure, region partition/coverage, repeatability) on the hostile structure family",
        text="Every classification of the random family (all pbc masks, degenerate and missing cells, unwrapped atoms, varied thresholds) is judged against get_dimensionality of the wrapped copy and against the invariants of its own region.",
        note="Trusted: get_dimensionality as reference (C09). Singular periodic cells are fed and counted out-of-domain.",
        ref="DESIGN.md §6 C17"),
    "C18": dict(
        technique="case rule on Classifier().classify over an enumerated universe of slabs (+0-2 adsorbates) and monolayers x presentation pool, with independent bonding precondition; known heuristic misses keyed by cell",
        text="Every cell must be classified Surface with exactly the adsorbates as outliers, or Material2D without outliers; cells where the heuristic genuinely fails are listed by cell key.",
        note="Trusted: ASE builders; brute-force bonding precondition; default Classifier parameters.",
        ref="DESIGN.md §6 C18"),
}

PENDING = {}

ALL = ["C%02d" % i for i in range(1, 21)]


def main():
    checks = []
    for pid in ALL:
        if pid not in CHECKS:
            continue
        c = CHECKS[pid]
        checks.append({
            "property_id": pid,
            "quick_cmd": "./check %s quick" % pid,
            "thorough_cmd": "./check %s thorough" % pid,
            "evidence_file": "/verif/evidence/%s.json" % pid,
            "replay_cmd_template": "./check %s quick --replay {path}" % pid,
            "engine": "runtime-monitors",
            "level_claimed": {"category": c.get("category", "exploration"), "text": c["text"], "design_ref": c["ref"]},
            "level_note": c["note"],
            "technique": c["technique"],
        })
    na = [{"property_id": pid, "reason": PENDING.get(pid, "check not built yet (work in progress in this session; planned per DESIGN.md §6)")}
          for pid in ALL if pid not in CHECKS]
    man = {
        "version": 1,
        "setup_cmd": "./setup.sh",
        "hooks": {
            "guard": "MATID_VERIF",
            "enable": "no source hooks: monitors are bound from outside onto the real functions in worker processes started with MATID_VERIF=1 and sys.path[0]=$VERIF_REPO (default /repo); the C++ sources are rebuilt from the working tree behind a C ABI (native/)",
            "baseline_off_cmd": "cd /repo && /venv/bin/python -m pytest -ra -q -p no:cacheprovider --timeout=900 --continue-on-collection-errors",
            "source_commits": [],
            "add_only": True,
        },
        "engines": [{"name": "runtime-monitors", "path": "/verif/harness", "serves_properties": sorted(CHECKS),
                     "kind_free_text": "worker pool running the real code with postcondition monitors, reference-model oracles, offline relational checkers and an ASan+UBSan native lane"}],
        "checks": checks,
        "not_applicable": na,
        "notes": "All checks: ./check <ID> quick|thorough ; env VERIF_SEED, VERIF_REPO (scratch copy for mutant self-tests), VERIF_JOBS. Exit 0 held / 1 violation / 2 inconclusive.",
    }
    with open(os.path.join(HERE, "MANIFEST.json"), "w") as fh:
        json.dump(man, fh, indent=1)
    print("MANIFEST.json: %d checks, %d not_applicable" % (len(checks), len(na)))


if __name__ == "__main__":
    main()
