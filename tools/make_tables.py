#!/venv/bin/python
"""Regenerates section 13 of DESIGN.md from the repository state: seeded changes (seeded/*/meta.json), own mutants
(selftest/last_selftest.json), known findings (known_findings.json) and fix commits in /repo."""
import glob
import json
import os
import subprocess

HERE = os.path.dirname(os.path.dirname(os.path.abspath(__file__)))
MARK = "## 13. Tables regenerated from the repository state"


def seeded_table():
    rows = ["| seeded change | property | needs to manifest | caught by (check:tier) | missed by |", "|---|---|---|---|---|"]
    for meta in sorted(glob.glob(os.path.join(HERE, "seeded", "*", "meta.json"))):
        m = json.load(open(meta))
        det = m.get("detection", {})
        caught = sorted(k for k, v in det.items() if v["status"] == "caught")
        missed = sorted(k for k, v in det.items() if v["status"] != "caught" and k.split(":")[0] + ":quick" not in caught
                        and k.split(":")[0] + ":thorough" not in caught)
        note = m.get("needs_to_manifest", "").replace("|", "/")
        if m.get("outside_stated_family"):
            note += " **Outside the stated family:** " + m["outside_stated_family"].replace("|", "/")
        rows.append("| `seeded/%s` | %s | %s | %s | %s |" % (os.path.basename(os.path.dirname(meta)), m["property"],
                                                            note, ", ".join(caught) or "-", ", ".join(missed) or "-"))
    return "\n".join(rows)


def mutant_table():
    p = os.path.join(HERE, "selftest", "last_selftest.json")
    if not os.path.exists(p):
        return "(no self-test run recorded)"
    res = json.load(open(p))
    rows = ["| property | mutant | check | tier | status | first witness key |", "|---|---|---|---|---|---|"]
    for r in res:
        k = (r.get("keys") or [""])[0]
        k = k.split(" count=")[0].replace("key=", "").replace("|", "/")
        rows.append("| %s | %s | %s | %s | %s | `%s` |" % (r["property"], r["name"], r.get("check", "-"), r.get("tier", "-"), r["status"], k))
    n = sum(1 for r in res if r["status"] == "CAUGHT")
    return "%d of %d caught.\n\n%s" % (n, len(res), "\n".join(rows))


def findings_table():
    k = json.load(open(os.path.join(HERE, "known_findings.json")))["findings"]
    openf = [f for f in k if f["status"] == "open"]
    fixed = [f for f in k if f["status"] == "fixed"]
    by = {}
    for f in openf:
        by.setdefault(f["property"], []).append(f)
    out = ["Open known findings: %d (%s). Fixed entries (history only): %d." % (
        len(openf), ", ".join("%s: %d" % (p, len(v)) for p, v in sorted(by.items())), len(fixed)), ""]
    for p, v in sorted(by.items()):
        out.append("* **%s** - %d: %s" % (p, len(v), ", ".join("`%s`" % f["key"].split("|", 1)[1] for f in v[:200])))
    return "\n".join(out)


def fixes_table():
    r = subprocess.run(["git", "-C", "/repo", "log", "--format=%h %s", "--reverse"], capture_output=True, text=True)
    lines = [l for l in r.stdout.splitlines() if " fix:" in " " + l]
    return "\n".join("* `%s`" % l for l in lines)


def main():
    p = os.path.join(HERE, "DESIGN.md")
    s = open(p).read()
    head = s[:s.index(MARK)]
    body = "%s\n\n### 13.1 Seeded changes (independent sub-agents)\n\n%s\n\n### 13.2 Own mutants (last complete self-test)\n\n%s\n\n### 13.3 Known findings\n\n%s\n\n### 13.4 `fix:` commits in /repo\n\n%s\n" % (
        MARK, seeded_table(), mutant_table(), findings_table(), fixes_table())
    open(p, "w").write(head + body)
    print("DESIGN.md section 13 regenerated")


if __name__ == "__main__":
    main()
