"""pytest plugin: run the repository's own tests with every monitor bound (one more workload; a monitor that
fires here is either too strict or a defect the tests do not assert).

  cd /repo && PYTHONPATH=/verif:/verif/.deps /venv/bin/python -m pytest -q -p no:cacheprovider -p tools.pytest_monitors [files]

Writes /verif/.runs/pytest_monitors.json (counters and violations) at session end.
"""
import json
import os
import sys

import numpy as np

VERIF = os.path.dirname(os.path.dirname(os.path.abspath(__file__)))
if VERIF not in sys.path:
    sys.path.insert(0, VERIF)

from monitors import core  # noqa: E402

_rec = core.Recorder(max_witnesses=3)


def pytest_configure(config):
    from harness import env
    env.bootstrap("installed")
    lane = "installed"
    # geometry-level monitors in "pipeline" context
    from checks import c10, c16, c09, c20, sbcfam, c17
    from monitors import sym
    for mod in (c10, c16, c09):
        mod.worker_init(lane)
        mod._state["context"] = "pytest"
        mod._state["rng"] = np.random.default_rng(0)
    c16._state["query_sample"] = 0.02
    c20.worker_init(lane)
    c20._state["context"] = "pytest"
    sbcfam.worker_init(lane)
    c17.worker_init(lane)
    sym.bind_all()
    core.set_recorder(_rec)


def pytest_sessionfinish(session, exitstatus):
    core.set_recorder(None)
    out = _rec.export()
    os.makedirs(os.path.join(VERIF, ".runs"), exist_ok=True)
    with open(os.path.join(VERIF, ".runs", "pytest_monitors.json"), "w") as fh:
        json.dump(json.loads(json.dumps(out, default=repr)), fh, indent=1)
    keys = {}
    for v in out["violations"]:
        keys[v["key"]] = keys.get(v["key"], 0) + 1
    sys.stderr.write("\n[verif monitors] judged: %s\n[verif monitors] violation keys: %s\n" % (
        {k: v["judged"] for k, v in out["monitors"].items()}, keys))
