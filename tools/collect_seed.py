#!/venv/bin/python
"""Collects a seeded breaking change produced by a sub-agent in /tmp/wt_<ID>, re-verifies it independently
(demo fails with the change and passes without it; the 110 baseline tests pass with it) and stores it as
/verif/seeded/<ID>[_n]/{patch.diff, demo_<ID>.py, meta.json}.  Then runs the given checks against a scratch copy of
/repo with the patch applied (never /repo itself).

usage: collect_seed.py C13 [--needs "text"] [--checks C13,C01] [--tier quick] [--suffix b]
"""
import argparse
import json
import os
import shutil
import subprocess
import sys
import tempfile

VERIF = os.path.dirname(os.path.dirname(os.path.abspath(__file__)))
PY = "/venv/bin/python"


def sh(cmd, cwd=None, timeout=1800):
    r = subprocess.run(cmd, shell=True, cwd=cwd, capture_output=True, text=True, timeout=timeout)
    return r.returncode, (r.stdout + r.stderr)


def main():
    ap = argparse.ArgumentParser()
    ap.add_argument("pid")
    ap.add_argument("--needs", default="")
    ap.add_argument("--checks", default="")
    ap.add_argument("--tier", default="quick")
    ap.add_argument("--suffix", default="")
    ap.add_argument("--wt", default="")
    ap.add_argument("--skip-verify", action="store_true")
    a = ap.parse_args()
    pid = a.pid
    wt = a.wt or "/tmp/wt_%s" % pid
    dest = os.path.join(VERIF, "seeded", pid + a.suffix)
    os.makedirs(dest, exist_ok=True)
    if os.path.isdir(wt):
        rc, diff = sh("git -C %s diff" % wt)
        if not diff.strip():
            print("no diff in", wt)
            return 2
        open(os.path.join(dest, "patch.diff"), "w").write(diff)
    elif not os.path.exists(os.path.join(dest, "patch.diff")):
        print("neither worktree nor stored patch for", pid)
        return 2
    else:
        a.skip_verify = True          # worktree already removed: re-evaluate the stored patch only
    demo = os.path.join(wt, "demo_%s.py" % pid)
    if os.path.isdir(wt) and os.path.exists(demo):
        shutil.copy(demo, os.path.join(dest, "demo_%s.py" % pid))
    ran = []
    verified = {}
    if not a.skip_verify:
        rc1, o1 = sh("%s demo_%s.py" % (PY, pid), cwd=wt)
        ran.append("cd %s && %s demo_%s.py  -> exit %d (with change)" % (wt, PY, pid, rc1))
        # NB: `git stash` is shared between worktrees - toggle the change with a worktree-local patch instead
        pfile = os.path.join(dest, "patch.diff")
        r0, o0 = sh("git -C %s apply -R %s" % (wt, pfile))
        rc2, o2 = sh("%s demo_%s.py" % (PY, pid), cwd=wt)
        r1, o1b = sh("git -C %s apply %s" % (wt, pfile))
        assert r0 == 0 and r1 == 0, (o0, o1b)
        ran.append("git apply -R patch.diff; %s demo_%s.py -> exit %d (without change); git apply patch.diff" % (PY, pid, rc2))
        rc3, o3 = sh("%s -m pytest -q -p no:cacheprovider -x -n 8 2>&1 | tail -1" % PY, cwd=wt)
        ran.append("cd %s && %s -m pytest -q -p no:cacheprovider -x -n 8 -> %s" % (wt, PY, o3.strip()[-80:]))
        verified = {"demo_fails_with_change": rc1 != 0, "demo_passes_without_change": rc2 == 0, "tests_pass_with_change": "110 passed" in o3}
        print("verify:", verified)
        print("  demo output with change:", o1.strip().splitlines()[-1][:200] if o1.strip() else "")
    detected = {}
    checks = [c for c in (a.checks or pid).split(",") if c]
    d = tempfile.mkdtemp(prefix="matid_seed_", dir="/tmp")
    try:
        subprocess.run(["rsync", "-a", "--exclude", ".git", "--exclude", "docs", "--exclude", "build", "--exclude", "reports",
                        "--exclude", "__pycache__", "/repo/", d + "/"], check=True)
        r = subprocess.run(["patch", "-p1", "-s", "-d", d, "-i", os.path.join(dest, "patch.diff")], capture_output=True, text=True)
        if r.returncode != 0:
            print("patch does not apply to /repo copy:", r.stdout, r.stderr)
            return 3
        for c in checks:
            env = dict(os.environ, VERIF_REPO=d, VERIF_JOBS=os.environ.get("VERIF_JOBS", "8"))
            rr = subprocess.run([os.path.join(VERIF, "check"), c, a.tier], capture_output=True, text=True, env=env, cwd=VERIF)
            keys = [l.strip()[:200] for l in rr.stdout.splitlines() if l.strip().startswith("key=")]
            status = "caught" if rr.returncode == 1 and "VIOLATION" in rr.stdout else ("missed" if rr.returncode == 0 else "inconclusive rc=%d" % rr.returncode)
            detected[c + ":" + a.tier] = {"status": status, "keys": keys[:4]}
            ran.append("VERIF_REPO=<scratch copy of /repo + patch> ./check %s %s -> exit %d" % (c, a.tier, rr.returncode))
            print("check %s %s: %s %s" % (c, a.tier, status, keys[:2]))
    finally:
        shutil.rmtree(d, ignore_errors=True)
    meta_path = os.path.join(dest, "meta.json")
    meta = json.load(open(meta_path)) if os.path.exists(meta_path) else {}
    meta.update({"property": pid, "needs_to_manifest": a.needs or meta.get("needs_to_manifest", ""),
                 "source": "independent sub-agent given only the property text and a scratch worktree",
                 "verified": verified or meta.get("verified", {}), "what_i_ran": (meta.get("what_i_ran", []) + ran)[-12:]})
    meta.setdefault("detection", {}).update(detected)
    meta["detected_by"] = sorted(set(k.split(":")[0] for k, v in meta["detection"].items() if v["status"] == "caught"))
    json.dump(meta, open(meta_path, "w"), indent=1)
    return 0


if __name__ == "__main__":
    sys.exit(main())
